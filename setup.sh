#!/bin/bash
# MANIFEST.setup_cmd: offline build of the harness (which compiles pumpkin-solver from /repo with the
# verification hooks) and of the command-line solver used by the CLI properties.
set -eu
ROOT="$(cd "$(dirname "$0")" && pwd)"
export CARGO_NET_OFFLINE=true
cd "$ROOT/harness"
cargo build --release --offline
"$ROOT/build_cli.sh"
