#!/usr/bin/env python3
"""Imports a confirmed seeded change from a sub-agent's output directory into /verif/seeded/<name>/.
usage: seeded_import.py <out_dir> <name> <results-file>..."""
import json, os, shutil, sys, re
out, name = sys.argv[1], sys.argv[2]
dst = f"/verif/seeded/{name}"
os.makedirs(dst, exist_ok=True)
shutil.copy(f"{out}/patch.diff", f"{dst}/patch.diff")
if os.path.isdir(f"{dst}/demo"):
    shutil.rmtree(f"{dst}/demo")
shutil.copytree(f"{out}/demo", f"{dst}/demo")
meta = json.load(open(f"{out}/meta.json"))
key = os.environ.get('SEEDED_KEY') or os.path.basename(out.rstrip('/'))
results = {}
before = {}
for rf in sys.argv[3:]:
    for line in open(rf):
        rerun = line.startswith("RERUN-after-strengthening ")
        if rerun:
            line = line[len("RERUN-after-strengthening "):]
        m = re.match(r"(\S+) (C\d\d) exit=(\d+) ?(.*)", line)
        if m and m.group(1) == key:
            r = {"exit": int(m.group(3)), "report": m.group(4).strip()[:400]}
            if rerun and m.group(2) in results and results[m.group(2)]["exit"] != r["exit"]:
                before[m.group(2)] = results[m.group(2)]
                r["note"] = "result after the check was strengthened (the first version of the check missed this change)"
            results[m.group(2)] = r
meta["missed_before_strengthening"] = sorted(before)
meta["checks_run"] = results
meta["caught_by"] = sorted(k for k, v in results.items() if v["exit"] == 1)
meta["missed_by"] = sorted(k for k, v in results.items() if v["exit"] == 0)
meta["base_commit"] = os.popen("git -C /repo rev-parse --short HEAD").read().strip()
json.dump(meta, open(f"{dst}/meta.json", "w"), indent=1)
print(name, "caught_by", meta["caught_by"], "missed_by", meta["missed_by"])
