#!/bin/bash
# Single entry point of every MANIFEST command:  ./run.sh <ID> [quick|thorough]   |   ./run.sh replay <file>
# Rebuilds the harness (and with it pumpkin-solver from /repo's working tree, hooks enabled via
# harness/.cargo/config.toml) before anything runs. Exit: 0 held, 1 violation, 2 harness/inconclusive.
set -u
ROOT="$(cd "$(dirname "$0")" && pwd)"
export VERIF_ROOT="$ROOT"
export CARGO_NET_OFFLINE=true
cd "$ROOT/harness" || exit 2
if ! cargo build --release --offline >"$ROOT/harness/build.log" 2>&1; then
  echo "harness build failed (see harness/build.log)" >&2
  tail -30 "$ROOT/harness/build.log" >&2
  exit 2
fi
cd "$ROOT" || exit 2
BIN="$ROOT/harness/target/release/pv"
# properties which run the command-line solver rebuild it from /repo's working tree as well
case "${1:-}" in
  C06|C11|C13|C14|C15|C20|replay)
    if ! "$ROOT/build_cli.sh"; then
      echo "building the command-line solver failed (see harness/build-cli.log)" >&2
      exit 2
    fi ;;
esac
case "${1:-}" in
  replay) shift; exec "$BIN" replay "$@" ;;
  "") echo "usage: run.sh <ID> [quick|thorough] | run.sh replay <file>" >&2; exit 2 ;;
  *) ID="$1"; TIER="${2:-${VERIF_TIER:-quick}}"
     if [ "$TIER" = thorough ]; then
       # coverage-guided stage (libFuzzer) for the properties whose generators are pure functions of raw entropy
       case "$ID" in
         C01|C02|C03|C04|C05|C06|C07|C09|C10|C11|C12|C16|C17|C18)
           "$ROOT/fuzz.sh" "$ID" "${VERIF_FUZZ_RUNS:-150000}" "${VERIF_FUZZ_JOBS:-8}"; frc=$?
           if [ $frc -eq 1 ]; then exit 1; fi
           if [ $frc -ne 0 ]; then echo "coverage-guided stage inconclusive (exit $frc); continuing with the proptest campaign" >&2; fi
           export PV_FUZZ_SUMMARY="$ROOT/harness/target-scratch/fuzz/$ID/summary.json" ;;
       esac
     fi
     exec "$BIN" check "$ID" "$TIER" ;;
esac
