#!/bin/bash
# Builds the real pumpkin-solver binary from /repo's working tree into harness/target-cli
# (release semantics, but without LTO and with unwinding so that the build is fast).
set -eu
ROOT="$(cd "$(dirname "$0")" && pwd)"
export CARGO_NET_OFFLINE=true
export CARGO_PROFILE_RELEASE_LTO=false CARGO_PROFILE_RELEASE_CODEGEN_UNITS=16 CARGO_PROFILE_RELEASE_PANIC=unwind
cd /repo
cargo build --release --offline -p pumpkin-solver --bin pumpkin-solver --target-dir "$ROOT/harness/target-cli" >"$ROOT/harness/build-cli.log" 2>&1 || { tail -30 "$ROOT/harness/build-cli.log" >&2; exit 2; }
