#!/bin/bash
# Builds the real pumpkin-solver binary from /repo's working tree into harness/target-cli
# (release optimisation, without LTO and with unwinding so that the build is fast; arithmetic overflow
# checks are enabled as in the harness build, so that a wrap-around shows as a crash).
set -eu
ROOT="$(cd "$(dirname "$0")" && pwd)"
export CARGO_NET_OFFLINE=true
export CARGO_PROFILE_RELEASE_LTO=false CARGO_PROFILE_RELEASE_CODEGEN_UNITS=16 CARGO_PROFILE_RELEASE_PANIC=unwind CARGO_PROFILE_RELEASE_OVERFLOW_CHECKS=true
cd /repo
cargo build --release --offline -p pumpkin-solver --bin pumpkin-solver --target-dir "$ROOT/harness/target-cli" >"$ROOT/harness/build-cli.log" 2>&1 || { tail -30 "$ROOT/harness/build-cli.log" >&2; exit 2; }
