#!/usr/bin/env python3
"""Writes MANIFEST.json from the table below (kept in one place so that it stays valid)."""
import json, subprocess
checks = {
 "C01": ("exploration", "generated models x configurations x hand-out paths; validity predicate on every solution", "Every solution handed out by satisfy / iterator / assumptions / optimisation result / callback in 60k+ generated models is evaluated with exact reference semantics: search-based evidence over a small-scope model space, not a proof.", "DESIGN 4/C01"),
 "C02": ("exploration", "generated models; verdicts vs exhaustive enumeration", "Verdicts (post errors, Unsatisfiable, endings of iteration/optimisation) are compared with the exhaustively enumerated solution set of each generated model; termination is only refuted within a deterministic poll budget.", "DESIGN 4/C02"),
 "C03": ("exploration", "generated models; iterated multiset vs exhaustive solution set, incl. continuation after posting", "Set equality (no missing / duplicate / non-solution, terminal value) against the reference on every generated model; prefixes continued after posting a further constraint.", "DESIGN 4/C03"),
 "C04": ("exploration", "generated models x objective views x procedures; optimum vs brute force", "Optimal/Unsatisfiable and every callback solution are judged against the brute-force optimum for both procedures, both directions and view objectives.", "DESIGN 4/C04"),
 "C05": ("exploration", "generated assumption sequences; S_A and core checks by brute force", "Solutions, UnsatisfiableUnderAssumptions, cores (implied by assumptions, inconsistent with the model) and retention of assumptions are judged by enumeration over sequences of solves on one solver.", "DESIGN 4/C05"),
 "C06": ("translation_validation", "every DRCP proof emitted on generated models is re-checked by the harness's own DRCP checker", "Each proof produced while solving / optimising a generated model is parsed and checked step by step: tagged inferences by reverse propagation against the semantics of the tagged constraint (explicit domains, harness/src/props/proof.rs), nogoods by reverse unit propagation over earlier steps, and the conclusion (UNSAT / dual bound) against the verdict and the brute-force optimum. Each run validates the proofs it saw; it is not a proof about all proofs.", "DESIGN 4/C06"),
 "C07": ("exploration", "one model x 10 configurations (7 fixed incl. a brancher-stress one, 3 generated); each vs exhaustive reference", "Each configuration's iterated solution set and optimum must equal the exhaustive reference (stronger than pairwise agreement); thresholds are generated small so restarts and nogood deletion run on tiny instances.", "DESIGN 4/C07"),
 "C08": ("exploration", "cumulative task sets x CumulativeOptions sweep; iterated set vs definition", "Solution sets under 8 (quick) / all 144 (thorough) option combinations are compared with the definitional solution set.", "DESIGN 4/C08"),
 "C09": ("exploration", "all constraint kinds x implied_by/reify/negation; iterated set vs implication/equivalence semantics", "Solution sets over (variables, literal) are compared with the reference defined by implication / equivalence / complement.", "DESIGN 4/C09"),
 "C10": ("exploration", "model-based stateful testing of API call sequences", "Operation sequences are interpreted against a reference model which accumulates constraints, blocking clauses and objective cuts; every result is judged by brute force.", "DESIGN 4/C10"),
 "C11": ("fault_enumeration", "every stop index of the harness-owned termination condition (exhaustive when N<=64); plus command-line optimisation runs interrupted by the wall-clock limit -t on a pigeon-hole-gated model (timing-independent oracle)", "The poll index at which the termination fires is enumerated exhaustively for runs with at most 64 polls (sampled beyond), each followed by an uninterrupted solve on the same solver.", "DESIGN 4/C11"),
 "C12": ("exploration", "posting prefixes; reported bounds vs exhaustive solution sets", "Bounds and literal values after every posting prefix are compared with the solution set of the prefix, incl. views of both signs.", "DESIGN 4/C12"),
 "C13": ("exploration", "generated FlatZinc text through the real binary; output vs brute-force projection", "Generated FlatZinc over all handled builtins is run through the command-line binary and its printed solutions are compared with the brute-force projection on the output items.", "DESIGN 4/C13"),
 "C14": ("exploration", "generated CNF x layouts through the real binary; brute force + own RUP checker", "Verdicts vs brute force, models evaluated, layouts compared, DRAT proofs validated by the harness's forward RUP checker (translation validation of each emitted proof inside an exploration campaign).", "DESIGN 4/C14"),
 "C15": ("exploration", "generated WCNF through the real binary; optimum vs brute force, both encodings", "Status, last o line and cost of the printed model (recomputed from the file) vs the brute-force optimum; both encodings where applicable.", "DESIGN 4/C15"),
 "C16": ("exploration", "generated models at large magnitudes with planted witnesses; exhaustive i128 reference / validity predicate", "Models whose domains, coefficients and right-hand sides sit around 2^15.5, 2^16, 2^30 and the 32-bit limits: with small domains the iterated solution set and the optimum (both procedures, both directions) must equal exact i128 enumeration; with spans up to the whole 32-bit range posting must succeed, satisfy must not report Unsatisfiable and the returned solution is evaluated exactly.", "DESIGN 4/C16"),
 "C17": ("exploration", "runtime monitoring of real searches (hook H1); every explanation judged by brute force", "Every propagation, conflict and analysis-time reason recorded by the tap is checked for sufficiency over the declared domains and for truth before the explained trail entry.", "DESIGN 4/C17"),
 "C18": ("exploration", "observing wrapper brancher (hook H2); exhaustive selector grid + generated composites", "Every decision of every built-in selector pair (grid exhaustive) and of composite branchers is checked to be unassigned and over an own variable; None only when all are fixed.", "DESIGN 4/C18"),
 "C19": ("exploration", "writer -> reader round trip over generated step sequences; corner layouts enumerated", "Round trip of generated proofs and literal definitions, double negation of atomics; the corner-layout grid is enumerated exhaustively.", "DESIGN 4/C19"),
 "C20": ("exploration", "same input twice (library: two solvers in one process; CLI: two processes); traces compared", "For a generated model / file and a fixed configuration and seed, two runs must produce the same decisions, solutions, statistics, proof bytes (library) and the same standard output and proof files (CLI, time statistics filtered).", "DESIGN 4/C20"),
}
na = [
]
pending = []
m = {
 "version": 1,
 "setup_cmd": "./setup.sh",
 "hooks": {
   "guard": "--cfg pumpkin_verif",
   "enable": "RUSTFLAGS from /verif/harness/.cargo/config.toml ([build] rustflags = [\"--cfg\", \"pumpkin_verif\"]); the harness depends on /repo/pumpkin-solver by path, so every check rebuilds it with the hooks compiled in (they stay inert until verif_hooks::enable is called)",
   "baseline_off_cmd": "cd /repo && (cargo nextest run --workspace --no-fail-fast --offline || cargo test --workspace --no-fail-fast --offline)",
   "source_commits": subprocess.run("cd /repo && git log --format=%h -i -E --grep='verif(ication)? hooks'", shell=True, capture_output=True, text=True).stdout.split(),
   "add_only": True,
 },
 "engines": [
   {"name": "pv", "path": "harness/", "serves_properties": sorted(checks), "kind_free_text": "Rust binary driving proptest 1.11 TestRunners (fixed seeds, construction-based strategies, integrated shrinking) on 16 worker threads, with exact reference semantics, exhaustive enumerators, a DRCP checker, a RUP checker and output parsers; the CLI properties spawn the real pumpkin-solver binary; harness and binary are built with optimisation and arithmetic overflow checks"},
   {"name": "pv-fuzz", "path": "harness/fuzz/", "serves_properties": ["C01", "C02", "C03", "C04", "C05", "C06", "C07", "C09", "C10", "C11", "C12", "C16", "C17", "C18"], "kind_free_text": "cargo-fuzz / libFuzzer target (thorough tier only, started by fuzz.sh from run.sh): the fuzzer's bytes drive the property's own proptest strategy through proptest's pass-through RNG, the property's oracle judges the case, a violation is written as a replay file in the same format as the proptest campaigns"},
 ],
 "checks": [],
 "notes": "The thorough tier of the in-process properties runs a libFuzzer stage first (VERIF_FUZZ_RUNS runs or VERIF_FUZZ_SECS seconds x VERIF_FUZZ_JOBS processes) and then the proptest campaign. Every command rebuilds the harness (and pumpkin-solver with it) from /repo's working tree; exit 0 held / 1 violation (VIOLATION line) / 2 harness problem, generator-health or watchdog (inconclusive). known_findings.jsonl lists recorded findings and fixed defects; see DESIGN.md.",
 "not_applicable": [{"property_id": p, "reason": "check not built yet in this round (planned, see DESIGN.md)"} for p in pending],
}
for pid,(cat,tech,text,ref) in sorted(checks.items()):
    m["checks"].append({
      "property_id": pid,
      "quick_cmd": f"./run.sh {pid} quick",
      "thorough_cmd": f"./run.sh {pid} thorough",
      "evidence_file": f"evidence/{pid}.json",
      "replay_cmd_template": "./run.sh replay {path}",
      "engine": "pv",
      "level_claimed": {"category": cat, "text": text, "design_ref": ref},
      "level_note": "Trusted base: rustc/cargo, proptest, the harness's reference semantics (harness/src/sem.rs, props/fzn.rs), its checkers and parsers; small-scope (models of <= 8 variables); never establishes absence.",
      "technique": "property-based testing: " + tech,
    })
json.dump(m, open('/verif/MANIFEST.json','w'), indent=1)
print("checks:", len(m["checks"]))
