use pv::runner::*;
use pv::{adapter, gen, ir, ops, props, runner, sem};

fn usage() -> ! {
    eprintln!("usage: pv check <ID> [quick|thorough] | pv replay <file> | pv selftest");
    std::process::exit(2)
}

macro_rules! dispatch {
    ($id:expr, $f:ident $(, $arg:expr)*) => {
        match $id {
            "C01" => $f(&props::solve::SolveProp { id: "C01" } $(, $arg)*),
            "C02" => $f(&props::solve::SolveProp { id: "C02" } $(, $arg)*),
            "C03" => $f(&props::iter::IterProp $(, $arg)*),
            "C04" => $f(&props::opt::OptProp $(, $arg)*),
            "C05" => $f(&props::opt::AssumpProp $(, $arg)*),
            "C06" => $f(&props::proof::ProofProp $(, $arg)*),
            "C07" => $f(&props::iter::MultiProp { id: "C07" } $(, $arg)*),
            "C08" => $f(&props::iter::MultiProp { id: "C08" } $(, $arg)*),
            "C09" => $f(&props::iter::MultiProp { id: "C09" } $(, $arg)*),
            "C10" => $f(&props::hist::HistProp $(, $arg)*),
            "C11" => $f(&props::hist::StopProp $(, $arg)*),
            "C12" => $f(&props::opt::BoundsProp $(, $arg)*),
            "C13" => $f(&props::fzn::FznProp $(, $arg)*),
            "C14" => $f(&props::dimacs::CnfProp $(, $arg)*),
            "C15" => $f(&props::dimacs::WcnfProp $(, $arg)*),
            "C16" => $f(&props::arith::ArithProp $(, $arg)*),
            "C17" => $f(&props::expl::ExplProp $(, $arg)*),
            "C18" => $f(&props::branch::BranchProp $(, $arg)*),
            "C19" => $f(&props::drcp::DrcpProp $(, $arg)*),
            "C20" => $f(&props::repro::ReproProp $(, $arg)*),
            other => {
                eprintln!("unknown property {other}");
                std::process::exit(2)
            }
        }
    };
}

fn main() {
    install_panic_hook();
    let args: Vec<String> = std::env::args().collect();
    if args.len() < 2 {
        usage();
    }
    match args[1].as_str() {
        "check" => {
            if args.len() < 3 {
                usage();
            }
            let tier = match args.get(3).map(|s| s.as_str()).or(std::env::var("VERIF_TIER").ok().as_deref()) {
                Some("thorough") => Tier::Thorough,
                _ => Tier::Quick,
            };
            let seed = seed_from_env();
            let code = dispatch!(args[2].as_str(), run_campaign, tier, seed);
            std::process::exit(code);
        }
        "replay" => {
            if args.len() < 3 {
                usage();
            }
            let path = std::path::PathBuf::from(&args[2]);
            let text = std::fs::read_to_string(&path).expect("read replay file");
            let doc: serde_json::Value = serde_json::from_str(&text).expect("parse replay file");
            let id = doc["property"].as_str().expect("property in replay file").to_string();
            let code = dispatch!(id.as_str(), replay, &path, &doc);
            std::process::exit(code);
        }
        "fuzzone" => {
            // run one libFuzzer input through the fuzz entry point (debugging aid): pv fuzzone <ID> <file>
            struct V(Vec<u8>);
            impl props::Visitor for V {
                type Out = ();
                fn visit<P: Property>(self, prop: &P) {
                    match fuzz_one(prop, &load_known(), &self.0) {
                        FuzzOutcome::NoCase => println!("no case"),
                        FuzzOutcome::Held { nontrivial } => println!("held (nontrivial: {nontrivial})"),
                        FuzzOutcome::Known(id) => println!("known finding {id}"),
                        FuzzOutcome::Violation(p, f) => println!("VIOLATION property={} replay={}\n  {}: {}", prop.id(), p.display(), f.sig, f.msg),
                    }
                }
            }
            let data = std::fs::read(&args[3]).expect("read input");
            if props::dispatch(&args[2], V(data)).is_none() {
                usage();
            }
        }
        "probe" => {
            // debugging aid: solve the model of a replay file under several configurations
            let text = std::fs::read_to_string(&args[2]).expect("read file");
            let doc: serde_json::Value = serde_json::from_str(&text).expect("parse");
            let model: ir::Model = serde_json::from_value(doc["case"]["model"].clone()).expect("model");
            let sols = sem::solutions(&model, 10_000_000).unwrap();
            println!("reference: {} solutions {:?}", sols.len(), &sols[..sols.len().min(5)]);
            let mut cfgs = gen::special_configs();
            if let Ok(c) = serde_json::from_value::<adapter::Config>(doc["case"]["cfg"].clone()) {
                cfgs.push(c);
            }
            for (i, cfg) in cfgs.iter().enumerate() {
                let r = runner::guarded(|| {
                    let mut b = adapter::Built::from_model(&model, cfg, None);
                    if b.infeasible_at_post() {
                        return format!("post error at {:?}", b.post_ok);
                    }
                    let mut br = b.brancher(&cfg.brancher);
                    let mut t = adapter::CountingTermination::budget(ops::BUDGET);
                    if std::env::var("VERIF_TRACE").is_ok() {
                        pumpkin_solver::verif_hooks::enable(100000);
                    }
                    let (got, end) = ops::iterate(&mut b, &mut br, &mut t, 100000);
                    if std::env::var("VERIF_TRACE").is_ok() {
                        for r in pumpkin_solver::verif_hooks::drain().0 {
                            eprintln!("  {:?} {} dl={} pos={} {:?} <- {:?} {:?}", r.kind, r.propagator, r.decision_level, r.position, r.propagated, r.reason, r.reason_positions);
                        }
                        pumpkin_solver::verif_hooks::disable();
                    }
                    let mut got_sorted = got.clone();
                    got_sorted.sort();
                    let mut s = sols.clone();
                    s.sort();
                    format!("{} solutions, end {:?}, equal to reference: {} (conflicts {})", got.len(), end, got_sorted == s, br.stats.conflicts)
                });
                println!("cfg {}: {:?}", i, r);
            }
        }
        _ => usage(),
    }
}
