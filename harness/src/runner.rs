//! Campaign runner: deterministic seeding, worker threads, shrinking, evidence, known findings.
use std::cell::RefCell;
use std::collections::{BTreeMap, HashSet};
use std::panic::{catch_unwind, AssertUnwindSafe};
use std::path::{Path, PathBuf};
use std::sync::atomic::{AtomicBool, Ordering};
use std::sync::Mutex;
use std::time::Instant;

use proptest::strategy::{BoxedStrategy, Strategy, ValueTree};
use proptest::test_runner::{Config as PtConfig, RngSeed, TestCaseError, TestError, TestRunner};
use serde::de::DeserializeOwned;
use serde::{Deserialize, Serialize};
use serde_json::{json, Value};

#[derive(Clone, Copy, Debug, PartialEq, Eq)]
pub enum Tier {
    Quick,
    Thorough,
}

impl Tier {
    pub fn name(&self) -> &'static str {
        match self {
            Tier::Quick => "quick",
            Tier::Thorough => "thorough",
        }
    }
}

pub fn verif_root() -> PathBuf {
    std::env::var("VERIF_ROOT").map(PathBuf::from).unwrap_or_else(|_| PathBuf::from("/verif"))
}

pub fn scratch_dir() -> PathBuf {
    let d = verif_root().join("harness").join("target-scratch").join(format!("p{}", std::process::id()));
    let _ = std::fs::create_dir_all(&d);
    d
}

pub fn splitmix64(mut x: u64) -> u64 {
    x = x.wrapping_add(0x9E3779B97F4A7C15);
    let mut z = x;
    z = (z ^ (z >> 30)).wrapping_mul(0xBF58476D1CE4E5B9);
    z = (z ^ (z >> 27)).wrapping_mul(0x94D049BB133111EB);
    z ^ (z >> 31)
}

pub fn fnv(s: &str) -> u64 {
    let mut h: u64 = 0xcbf29ce484222325;
    for b in s.bytes() {
        h ^= b as u64;
        h = h.wrapping_mul(0x100000001b3);
    }
    h
}

// ------------------------------------------------------------------------------------------
// panic capture

thread_local! {
    static LAST_PANIC: RefCell<Option<(String, String)>> = const { RefCell::new(None) };
    static IN_CASE: RefCell<bool> = const { RefCell::new(false) };
}

pub fn install_panic_hook() {
    let default = std::panic::take_hook();
    std::panic::set_hook(Box::new(move |info| {
        let in_case = IN_CASE.with(|c| *c.borrow());
        if !in_case || std::env::var("VERIF_VERBOSE").is_ok() {
            default(info);
        }
        let loc = info.location().map(|l| l.file().to_string()).unwrap_or_default();
        let msg = if let Some(s) = info.payload().downcast_ref::<&str>() {
            s.to_string()
        } else if let Some(s) = info.payload().downcast_ref::<String>() {
            s.clone()
        } else {
            "<non-string panic>".to_string()
        };
        LAST_PANIC.with(|p| *p.borrow_mut() = Some((loc, msg)));
    }));
}

/// digit runs -> '#', so that signatures do not depend on concrete values / line numbers
pub fn abstract_numbers(s: &str) -> String {
    let mut out = String::new();
    let mut in_num = false;
    for ch in s.chars() {
        if ch.is_ascii_digit() {
            if !in_num {
                out.push('#');
                in_num = true;
            }
        } else {
            in_num = false;
            out.push(ch);
        }
    }
    out
}

/// Run `f`; a panic becomes `Err((file, message))`.
pub fn guarded<T>(f: impl FnOnce() -> T) -> Result<T, (String, String)> {
    IN_CASE.with(|c| *c.borrow_mut() = true);
    LAST_PANIC.with(|p| *p.borrow_mut() = None);
    if std::env::var("VERIF_TRACE").is_ok() {
        pumpkin_solver::verif_hooks::enable(1_000_000);
    }
    let r = catch_unwind(AssertUnwindSafe(f));
    IN_CASE.with(|c| *c.borrow_mut() = false);
    match r {
        Ok(v) => {
            if std::env::var("VERIF_TRACE").is_ok() {
                for r in pumpkin_solver::verif_hooks::drain().0 {
                    eprintln!("  {:?} {} dl={} pos={} {:?} <- {:?} {:?}", r.kind, r.propagator, r.decision_level, r.position, r.propagated, r.reason, r.reason_positions);
                }
                pumpkin_solver::verif_hooks::disable();
            }
            Ok(v)
        }
        Err(_) => {
            // a panic may leave the verification tap enabled with stale data
            if std::env::var("VERIF_TRACE").is_ok() {
                for r in pumpkin_solver::verif_hooks::drain().0 {
                    eprintln!("  {:?} {} dl={} pos={} {:?} <- {:?} {:?}", r.kind, r.propagator, r.decision_level, r.position, r.propagated, r.reason, r.reason_positions);
                }
            }
            pumpkin_solver::verif_hooks::disable();
            let (loc, msg) = LAST_PANIC.with(|p| p.borrow_mut().take()).unwrap_or_default();
            let short = loc.rsplit("/src/").next().unwrap_or(&loc).to_string();
            Err((short, msg))
        }
    }
}

// ------------------------------------------------------------------------------------------
// verdicts

#[derive(Clone, Debug, Serialize, Deserialize)]
pub struct Failure {
    /// short machine-matchable signature, e.g. "panic:engine/x.rs:message with #" or "wrong:unsat-but-sat"
    pub sig: String,
    /// human readable description (observed vs expected)
    pub msg: String,
}

impl Failure {
    pub fn new(sig: impl Into<String>, msg: impl Into<String>) -> Failure {
        Failure { sig: sig.into(), msg: msg.into() }
    }
    pub fn from_panic(p: (String, String)) -> Failure {
        let first_line = p.1.lines().next().unwrap_or("").to_string();
        Failure {
            sig: format!("panic:{}:{}", p.0, abstract_numbers(&first_line)),
            msg: format!("panic in {}: {}", p.0, p.1),
        }
    }
}

#[derive(Default, Debug)]
pub struct Outcome {
    /// hash identifying the case if it is non-trivial by the property's rule
    pub nontrivial: Option<u64>,
    pub classes: Vec<String>,
    pub inconclusive: bool,
    /// additional sub-evaluations inside the case (e.g. stop points, configurations); 0 = just 1
    pub sub_evals: u64,
    pub observed: Option<Value>,
    pub notes: Vec<String>,
    /// numeric counters merged by summation into the evidence (e.g. proofs checked, records)
    pub counters: Vec<(String, u64)>,
}

pub type Verdict = Result<Outcome, Failure>;

pub trait Property: Sync {
    type Case: std::fmt::Debug + Clone + Serialize + DeserializeOwned + Send + Sync + 'static;
    fn id(&self) -> &'static str;
    fn level(&self) -> &'static str {
        "exploration"
    }
    fn rule(&self) -> String;
    fn assumptions(&self) -> Vec<String> {
        vec![]
    }
    fn strategy(&self, tier: Tier) -> BoxedStrategy<Self::Case>;
    /// number of generated cases for the whole campaign (split over the workers)
    fn cases(&self, tier: Tier) -> u64;
    /// judge one case; panics inside are caught by the runner and attributed to the case
    fn run(&self, case: &Self::Case) -> Verdict;
    /// named structural features of a case, used by known-finding matchers
    fn feature(&self, _case: &Self::Case, _name: &str) -> bool {
        false
    }
    /// class floors: (class, minimum fraction of evaluations); violated floors give exit 2
    fn floors(&self, _tier: Tier) -> Vec<(&'static str, f64)> {
        vec![]
    }
    /// extra coverage keys (e.g. exhaustive)
    fn extra_coverage(&self, _tier: Tier) -> Vec<(String, Value)> {
        vec![]
    }
    /// cases run before the random campaign (exhaustive grids etc.)
    fn fixed_cases(&self, _tier: Tier) -> Vec<Self::Case> {
        vec![]
    }
    /// are panics of the system under test violations of this property?
    fn panics_are_violations(&self) -> bool {
        true
    }
}

// ------------------------------------------------------------------------------------------
// known findings

#[derive(Clone, Debug, Serialize, Deserialize)]
pub struct KnownRecord {
    pub kind: String,
    pub property: String,
    #[serde(default)]
    pub id: String,
    /// all of these substrings must occur in the failure signature
    #[serde(default)]
    pub sig_contains: Vec<String>,
    /// all of these named features must hold for the (shrunk) case
    #[serde(default)]
    pub features: Vec<String>,
    #[serde(default)]
    pub witness: String,
    #[serde(default)]
    pub commit: String,
    pub what: String,
}

pub fn load_known() -> Vec<KnownRecord> {
    let p = verif_root().join("known_findings.jsonl");
    let Ok(text) = std::fs::read_to_string(&p) else {
        return vec![];
    };
    text.lines()
        .filter(|l| !l.trim().is_empty() && !l.trim_start().starts_with('#'))
        .map(|l| serde_json::from_str::<KnownRecord>(l).unwrap_or_else(|e| panic!("bad known_findings line {l}: {e}")))
        .collect()
}

fn match_known<P: Property>(prop: &P, known: &[KnownRecord], case: &P::Case, f: &Failure) -> Option<usize> {
    known.iter().position(|k| {
        k.kind == "finding"
            && k.property == prop.id()
            && !k.sig_contains.is_empty()
            && k.sig_contains.iter().all(|s| f.sig.contains(s.as_str()))
            && k.features.iter().all(|feat| prop.feature(case, feat))
    })
}

// ------------------------------------------------------------------------------------------
// campaign

#[derive(Default)]
struct Acc {
    evaluations: u64,
    sub_evals: u64,
    nontrivial: HashSet<u64>,
    classes: BTreeMap<String, u64>,
    inconclusive: u64,
    panics: u64,
    known_hits: BTreeMap<String, u64>,
    samples: Vec<Value>,
    notes: Vec<String>,
    counters: BTreeMap<String, u64>,
}

impl Acc {
    fn merge(&mut self, o: Acc) {
        self.evaluations += o.evaluations;
        self.sub_evals += o.sub_evals;
        self.nontrivial.extend(o.nontrivial);
        for (k, v) in o.classes {
            *self.classes.entry(k).or_default() += v;
        }
        self.inconclusive += o.inconclusive;
        self.panics += o.panics;
        for (k, v) in o.known_hits {
            *self.known_hits.entry(k).or_default() += v;
        }
        for s in o.samples {
            if self.samples.len() < 8 {
                self.samples.push(s);
            }
        }
        for n in o.notes {
            if self.notes.len() < 20 {
                self.notes.push(n);
            }
        }
        for (k, v) in o.counters {
            *self.counters.entry(k).or_default() += v;
        }
    }
}

pub struct Violation {
    pub case_json: Value,
    pub failure: Failure,
}

pub struct CampaignResult {
    pub exit: i32,
}

fn judge<P: Property>(prop: &P, case: &P::Case) -> Verdict {
    match guarded(|| prop.run(case)) {
        Ok(v) => v,
        Err(p) => {
            // panics inside the harness itself are harness bugs
            if p.0.starts_with("src/") || p.1.starts_with("harness:") {
                eprintln!("HARNESS PANIC in {}: {}", p.0, p.1);
                eprintln!("case: {}", serde_json::to_string(case).unwrap_or_default());
                std::process::exit(2);
            }
            Err(Failure::from_panic(p))
        }
    }
}

fn record<P: Property>(
    prop: &P,
    acc: &mut Acc,
    known: &[KnownRecord],
    case: &P::Case,
    v: Verdict,
) -> Result<(), Failure> {
    acc.evaluations += 1;
    match v {
        Ok(o) => {
            acc.sub_evals += o.sub_evals;
            if o.inconclusive {
                acc.inconclusive += 1;
            }
            for c in &o.classes {
                *acc.classes.entry(c.clone()).or_default() += 1;
            }
            for (k, v) in &o.counters {
                *acc.counters.entry(k.clone()).or_default() += v;
            }
            for n in o.notes {
                if acc.notes.len() < 20 {
                    acc.notes.push(n);
                }
            }
            if let Some(h) = o.nontrivial {
                if acc.nontrivial.insert(h) && acc.samples.len() < 3 {
                    acc.samples.push(json!({"case": serde_json::to_value(case).unwrap_or(Value::Null), "observed": o.observed}));
                }
            }
            Ok(())
        }
        Err(f) => {
            let is_panic = f.sig.starts_with("panic:");
            if is_panic {
                acc.panics += 1;
            }
            if let Some(i) = match_known(prop, known, case, &f) {
                *acc.known_hits.entry(known[i].id.clone()).or_default() += 1;
                return Ok(());
            }
            if is_panic && !prop.panics_are_violations() && std::env::var("VERIF_STRICT_PANICS").is_err() {
                if acc.notes.len() < 20 {
                    acc.notes.push(format!("NOTE panic not judged by this property: {}", f.sig));
                }
                return Ok(());
            }
            Err(f)
        }
    }
}

pub fn jobs() -> usize {
    std::env::var("VERIF_JOBS").ok().and_then(|s| s.parse().ok()).unwrap_or(16).max(1)
}

pub fn seed_from_env() -> u64 {
    std::env::var("VERIF_SEED").ok().and_then(|s| s.parse::<i64>().ok()).map(|v| v as u64).unwrap_or(1)
}

pub fn run_campaign<P: Property>(prop: &P, tier: Tier, seed: u64) -> i32 {
    let start = Instant::now();
    let known = load_known();
    let id = prop.id();
    let mut total = Acc::default();
    let mut violation: Option<Violation> = None;
    let mut exit = 0;
    let hang_secs: u64 = std::env::var("VERIF_HANG_SECS").ok().and_then(|s| s.parse().ok()).unwrap_or(if tier == Tier::Quick { 60 } else { 300 });

    // 1. replay tier: known-finding witnesses and regression inputs
    let regress_dir = verif_root().join("regress").join(id);
    let mut regress_files: Vec<PathBuf> = std::fs::read_dir(&regress_dir)
        .map(|rd| rd.filter_map(|e| e.ok().map(|e| e.path())).filter(|p| p.extension().is_some_and(|e| e == "json")).collect())
        .unwrap_or_default();
    regress_files.sort();
    let mut regress_run = 0u64;
    for path in &regress_files {
        let text = std::fs::read_to_string(path).expect("read regress file");
        let v: Value = serde_json::from_str(&text).unwrap_or_else(|e| panic!("harness: bad regress file {path:?}: {e}"));
        let case: P::Case = match serde_json::from_value(v["case"].clone()) {
            Ok(c) => c,
            Err(e) => {
                eprintln!("harness: regress file {path:?} does not decode: {e}");
                exit = 2;
                continue;
            }
        };
        regress_run += 1;
        let verdict = std::thread::scope(|scope| {
            let (tx, rx) = std::sync::mpsc::channel();
            let case = &case;
            let _ = std::thread::Builder::new().stack_size(64 << 20).spawn_scoped(scope, move || {
                let _ = tx.send(judge(prop, case));
            });
            match rx.recv_timeout(std::time::Duration::from_secs(hang_secs)) {
                Ok(v) => v,
                Err(_) => {
                    eprintln!("HANG property={} case={} (exit 2: inconclusive, not a violation)", id, path.display());
                    std::process::exit(2);
                }
            }
        });
        let mut acc = Acc::default();
        match verdict {
            Err(f) => {
                if let Some(i) = match_known(prop, &known, &case, &f) {
                    println!("KNOWN-FINDING: property={} {} [{}]", id, known[i].what, known[i].id);
                    *total.known_hits.entry(known[i].id.clone()).or_default() += 1;
                } else if f.sig.starts_with("panic:") && !prop.panics_are_violations() {
                    total.notes.push(format!("NOTE regress {:?}: {}", path.file_name().unwrap(), f.sig));
                } else {
                    println!("VIOLATION property={} replay={}", id, path.display());
                    eprintln!("  {}: {}", f.sig, f.msg);
                    violation = Some(Violation { case_json: v["case"].clone(), failure: f });
                    exit = 1;
                }
                total.evaluations += 1;
            }
            ok => {
                let _ = record(prop, &mut acc, &known, &case, ok);
                total.merge(acc);
            }
        }
    }

    // 2. fixed cases (exhaustive grids) and 3. the generated campaign
    let stop = AtomicBool::new(false);
    let done = AtomicBool::new(false);
    let remaining = std::sync::atomic::AtomicUsize::new(jobs());
    let slots: Vec<Mutex<Option<(Instant, P::Case)>>> = (0..jobs()).map(|_| Mutex::new(None)).collect();
    let found: Mutex<Option<Violation>> = Mutex::new(None);
    let merged: Mutex<Vec<(usize, Acc)>> = Mutex::new(vec![]);
    let fixed = prop.fixed_cases(tier);
    let n_fixed = fixed.len() as u64;
    let workers = jobs();
    let cases_total = prop.cases(tier);
    let per_worker = cases_total.div_ceil(workers as u64);

    if exit == 0 {
        std::thread::scope(|scope| {
            // watchdog: a case which runs for longer than `hang_secs` is saved and the run ends with
            // exit status 2 (a hang is reported as such, never as a violation)
            {
                let slots = &slots;
                let done = &done;
                let _ = scope.spawn(move || {
                    while !done.load(Ordering::Relaxed) {
                        std::thread::sleep(std::time::Duration::from_millis(250));
                        for slot in slots.iter() {
                            let g = slot.lock().unwrap();
                            if let Some((since, case)) = g.as_ref() {
                                if since.elapsed().as_secs() >= hang_secs {
                                    let dir = verif_root().join("replays").join(id);
                                    let _ = std::fs::create_dir_all(&dir);
                                    let path = dir.join(format!("hang-{}.json", seed));
                                    let doc = json!({"property": id, "case": serde_json::to_value(case).unwrap(), "failure": {"sig": "hang", "msg": format!("case did not finish within {hang_secs}s")}, "seed": seed});
                                    let _ = std::fs::write(&path, serde_json::to_string_pretty(&doc).unwrap());
                                    eprintln!("HANG property={} case={} (exit 2: inconclusive, not a violation)", id, path.display());
                                    std::process::exit(2);
                                }
                            }
                        }
                    }
                });
            }
            for w in 0..workers {
                let slots = &slots;
                let done = &done;
                let journal = std::env::var("VERIF_JOURNAL").ok().map(PathBuf::from);
                if let Some(d) = journal.as_ref() {
                    let _ = std::fs::create_dir_all(d);
                }
                let remaining = &remaining;
                let known = &known;
                let stop = &stop;
                let found = &found;
                let merged = &merged;
                let fixed = &fixed;
                let _ = std::thread::Builder::new()
                    .stack_size(64 << 20)
                    .spawn_scoped(scope, move || {
                        // a panic outside `judge` (generator, feature or bookkeeping code) is a harness
                        // error: report it as such instead of leaving the watchdog waiting forever
                        struct WorkerGuard;
                        impl Drop for WorkerGuard {
                            fn drop(&mut self) {
                                if std::thread::panicking() {
                                    eprintln!("harness: a worker thread panicked outside the property body (exit 2){}", LAST_PANIC.with(|p| p.borrow().clone().map(|m| format!(": {} {}", m.0, m.1)).unwrap_or_default()));
                                    std::process::exit(2);
                                }
                            }
                        }
                        let _guard = WorkerGuard;
                        let acc = RefCell::new(Acc::default());
                        let failed = RefCell::new(false);
                        // fixed cases are distributed round-robin
                        for (i, case) in fixed.iter().enumerate() {
                            if i % workers != w || stop.load(Ordering::Relaxed) {
                                continue;
                            }
                            *slots[w].lock().unwrap() = Some((Instant::now(), case.clone()));
                            let v = judge(prop, case);
                            *slots[w].lock().unwrap() = None;
                            let r = record(prop, &mut acc.borrow_mut(), known, case, v);
                            if let Err(f) = r {
                                stop.store(true, Ordering::Relaxed);
                                let mut g = found.lock().unwrap();
                                if g.is_none() {
                                    *g = Some(Violation { case_json: serde_json::to_value(case).unwrap(), failure: f });
                                }
                                merged.lock().unwrap().push((w, acc.into_inner()));
                                if remaining.fetch_sub(1, Ordering::SeqCst) == 1 {
                                    done.store(true, Ordering::Relaxed);
                                }
                                return;
                            }
                        }
                        let wseed = splitmix64(seed ^ fnv(id) ^ (w as u64).wrapping_mul(0x9E37));
                        let cfg = PtConfig {
                            cases: per_worker as u32,
                            max_shrink_iters: 4000,
                            max_shrink_time: 0,
                            failure_persistence: None,
                            rng_seed: RngSeed::Fixed(wseed),
                            max_local_rejects: 1 << 20,
                            max_global_rejects: 1 << 20,
                            ..PtConfig::default()
                        };
                        let mut runner = TestRunner::new(cfg);
                        let strat = prop.strategy(tier);
                        let last_failure: RefCell<Option<Failure>> = RefCell::new(None);
                        let result = runner.run(&strat, |case| {
                            if stop.load(Ordering::Relaxed) && !*failed.borrow() {
                                return Ok(());
                            }
                            *slots[w].lock().unwrap() = Some((Instant::now(), case.clone()));
                            if let Some(dir) = journal.as_ref() {
                                // debugging aid for failures which kill the process (stack overflow, abort): the
                                // case in flight on every worker is on disk
                                let doc = json!({"property": id, "case": serde_json::to_value(&case).unwrap(), "failure": {"sig": "in-flight", "msg": "case in flight when the process died"}});
                                let _ = std::fs::write(dir.join(format!("w{w}.json")), doc.to_string());
                            }
                            let v = judge(prop, &case);
                            *slots[w].lock().unwrap() = None;
                            if *failed.borrow() {
                                // shrinking: do not count; still exclude known findings
                                return match v {
                                    Ok(_) => Ok(()),
                                    Err(f) => {
                                        if match_known(prop, known, &case, &f).is_some()
                                            || (f.sig.starts_with("panic:") && !prop.panics_are_violations())
                                        {
                                            Ok(())
                                        } else {
                                            *last_failure.borrow_mut() = Some(f.clone());
                                            Err(TestCaseError::fail(f.sig))
                                        }
                                    }
                                };
                            }
                            match record(prop, &mut acc.borrow_mut(), known, &case, v) {
                                Ok(()) => Ok(()),
                                Err(f) => {
                                    *failed.borrow_mut() = true;
                                    stop.store(true, Ordering::Relaxed);
                                    *last_failure.borrow_mut() = Some(f.clone());
                                    Err(TestCaseError::fail(f.sig))
                                }
                            }
                        });
                        if let Err(TestError::Fail(_, case)) = result {
                            // re-judge the minimal case to get its own failure description
                            let f = match judge(prop, &case) {
                                Err(f) => f,
                                Ok(_) => last_failure.borrow().clone().unwrap_or(Failure::new("unstable", "failure did not reproduce on the shrunk case")),
                            };
                            let mut g = found.lock().unwrap();
                            if g.is_none() {
                                *g = Some(Violation { case_json: serde_json::to_value(&case).unwrap(), failure: f });
                            }
                        } else if let Err(TestError::Abort(r)) = result {
                            eprintln!("harness: proptest aborted: {r}");
                            std::process::exit(2);
                        }
                        merged.lock().unwrap().push((w, acc.into_inner()));
                        if remaining.fetch_sub(1, Ordering::SeqCst) == 1 {
                            done.store(true, Ordering::Relaxed);
                        }
                    })
                    .expect("spawn worker");
            }
        });
        let mut parts = merged.into_inner().unwrap();
        parts.sort_by_key(|p| p.0);
        for (_, a) in parts {
            total.merge(a);
        }
        if let Some(v) = found.into_inner().unwrap() {
            let dir = verif_root().join("replays").join(id);
            let _ = std::fs::create_dir_all(&dir);
            let h = crate::ir::hash_of(&serde_json::to_string(&v.case_json).unwrap());
            let path = dir.join(format!("{}-{:016x}.json", seed, h));
            let doc = json!({"property": id, "case": v.case_json, "failure": v.failure, "seed": seed, "tier": tier.name()});
            std::fs::write(&path, serde_json::to_string_pretty(&doc).unwrap()).expect("write replay");
            println!("VIOLATION property={} replay={}", id, path.display());
            eprintln!("  {}: {}", v.failure.sig, v.failure.msg);
            violation = Some(v);
            exit = 1;
        }
    }

    // generator health
    let mut health: Vec<String> = vec![];
    if exit == 0 {
        for (class, floor) in prop.floors(tier) {
            let have = *total.classes.get(class).unwrap_or(&0) as f64 / total.evaluations.max(1) as f64;
            if have < floor {
                health.push(format!("class '{}' at {:.3} below floor {:.3}", class, have, floor));
            }
        }
        if total.nontrivial.len() < 2 {
            health.push("fewer than 2 distinct non-trivial cases".into());
        }
        if !health.is_empty() {
            eprintln!("GENERATOR-HEALTH property={}: {}", id, health.join("; "));
            exit = 2;
        }
    }

    // evidence
    let wall = start.elapsed().as_secs_f64();
    let mut coverage = serde_json::Map::new();
    coverage.insert("evaluations".into(), json!(total.evaluations + total.sub_evals));
    coverage.insert("cases".into(), json!(total.evaluations));
    coverage.insert("distinct_nontrivial".into(), json!(total.nontrivial.len()));
    coverage.insert("rule".into(), json!(prop.rule()));
    coverage.insert("samples".into(), json!(total.samples));
    coverage.insert("classes".into(), json!(total.classes));
    coverage.insert("inconclusive".into(), json!(total.inconclusive));
    coverage.insert("panics".into(), json!(total.panics));
    coverage.insert("known_finding_hits".into(), json!(total.known_hits));
    coverage.insert("regress_replayed".into(), json!(regress_run));
    coverage.insert("fixed_cases".into(), json!(n_fixed));
    coverage.insert("counters".into(), json!(total.counters));
    coverage.insert("notes".into(), json!(total.notes));
    coverage.insert("generator_health".into(), json!(health));
    coverage.insert("workers".into(), json!(workers));
    // the coverage-guided stage of the thorough tier (fuzz.sh) hands over its counters
    if let Ok(path) = std::env::var("PV_FUZZ_SUMMARY") {
        if let Some(v) = std::fs::read_to_string(&path).ok().and_then(|t| serde_json::from_str::<Value>(&t).ok()) {
            let _ = coverage.insert("libfuzzer_stage".into(), v);
        }
    }
    for (k, v) in prop.extra_coverage(tier) {
        coverage.insert(k, v);
    }
    if prop.level() == "translation_validation" {
        let programs = total.counters.get("programs").copied().unwrap_or(0);
        coverage.insert("programs".into(), json!(programs));
        coverage.insert("disagreements_checked".into(), json!(total.counters.get("disagreements_checked").copied().unwrap_or(0)));
    }
    if let Some(v) = &violation {
        coverage.insert("violation".into(), json!({"failure": v.failure, "case": v.case_json}));
    }
    let evidence = json!({
        "property_id": id,
        "tier": tier.name(),
        "seed": seed as i64,
        "level": prop.level(),
        "coverage": Value::Object(coverage),
        "assumptions": prop.assumptions(),
        "wall_s": wall,
        "violations": if violation.is_some() { 1 } else { 0 },
    });
    write_evidence(id, &evidence);
    eprintln!(
        "[{}] tier={} seed={} cases={} evals={} nontrivial={} inconclusive={} panics={} known_hits={:?} wall={:.1}s exit={}",
        id,
        tier.name(),
        seed,
        total.evaluations,
        total.evaluations + total.sub_evals,
        total.nontrivial.len(),
        total.inconclusive,
        total.panics,
        total.known_hits,
        wall,
        exit
    );
    if std::env::var("VERIF_CLASSES").is_ok() {
        for (k, v) in &total.classes {
            eprintln!("    {:40} {:8} {:.3}", k, v, *v as f64 / total.evaluations.max(1) as f64);
        }
        for (k, v) in &total.counters {
            eprintln!("    #{:39} {:8}", k, v);
        }
        for n in &total.notes {
            eprintln!("    note: {}", n);
        }
    }
    exit
}

pub fn write_evidence(id: &str, evidence: &Value) {
    // experiments on a modified tree (seeded_test.sh) must not overwrite the evidence of the real tree
    let dir = std::env::var("VERIF_EVIDENCE_DIR").map(PathBuf::from).unwrap_or_else(|_| verif_root().join("evidence"));
    let _ = std::fs::create_dir_all(&dir);
    let tmp = dir.join(format!("{}.json.tmp", id));
    std::fs::write(&tmp, serde_json::to_string_pretty(evidence).unwrap()).expect("write evidence");
    std::fs::rename(&tmp, dir.join(format!("{}.json", id))).expect("rename evidence");
}

/// Replay one saved case strictly. Returns the exit code.
pub fn replay<P: Property>(prop: &P, path: &Path, doc: &Value) -> i32 {
    let case: P::Case = match serde_json::from_value(doc["case"].clone()) {
        Ok(c) => c,
        Err(e) => {
            eprintln!("harness: cannot decode case: {e}");
            return 2;
        }
    };
    let known = load_known();
    match judge(prop, &case) {
        Ok(o) => {
            println!("PASS property={} (classes: {:?})", prop.id(), o.classes);
            0
        }
        Err(f) => {
            if let Some(i) = match_known(prop, &known, &case, &f) {
                println!("KNOWN-FINDING: property={} {} [{}]", prop.id(), known[i].what, known[i].id);
                0
            } else {
                println!("VIOLATION property={} replay={}", prop.id(), path.display());
                println!("  {}: {}", f.sig, f.msg);
                1
            }
        }
    }
}

/// helper for strategies: monotone index mapping (shrinks towards 0)
pub fn pick(i: u16, len: usize) -> usize {
    if len == 0 {
        0
    } else {
        ((i as usize) * len) >> 16
    }
}

#[allow(dead_code)]
pub fn sample_strategy<T: std::fmt::Debug>(s: &BoxedStrategy<T>, seed: u64, n: usize) -> Vec<T> {
    let mut runner = TestRunner::new(PtConfig { rng_seed: RngSeed::Fixed(seed), failure_persistence: None, ..PtConfig::default() });
    (0..n).map(|_| s.new_tree(&mut runner).unwrap().current()).collect()
}

// ------------------------------------------------------------------------------------------
// coverage-guided fuzzing (libFuzzer): the bytes of the fuzzer drive the property's own proptest strategy
// through proptest's pass-through RNG, so that generator, oracle and known-finding handling are shared
// with the proptest campaigns.

/// Outcome of one fuzz input.
pub enum FuzzOutcome {
    /// the strategy rejected the bytes (no case was generated)
    NoCase,
    Held { nontrivial: bool },
    Known(String),
    /// a violation which is not a listed finding; the replay file has been written
    Violation(PathBuf, Failure),
}

pub fn fuzz_one<P: Property>(prop: &P, known: &[KnownRecord], data: &[u8]) -> FuzzOutcome {
    use proptest::test_runner::{RngAlgorithm, TestRng};
    if data.is_empty() {
        return FuzzOutcome::NoCase;
    }
    let cfg = PtConfig { failure_persistence: None, ..PtConfig::default() };
    // proptest's pass-through RNG yields zeros once the input is used up, on which rand's rejection
    // sampling of ranges never terminates; a fixed pseudo-random tail follows the fuzzer's bytes instead
    static TAIL: std::sync::OnceLock<Vec<u8>> = std::sync::OnceLock::new();
    let tail = TAIL.get_or_init(|| {
        let mut x = 0x5EED_F00D_u64;
        (0..(256 << 10) / 8)
            .flat_map(|_| {
                x = splitmix64(x);
                x.to_le_bytes()
            })
            .collect()
    });
    let mut bytes = Vec::with_capacity(data.len() + tail.len());
    bytes.extend_from_slice(data);
    bytes.extend_from_slice(tail);
    let mut runner = TestRunner::new_with_rng(cfg, TestRng::from_seed(RngAlgorithm::PassThrough, &bytes));
    let strat = prop.strategy(Tier::Thorough);
    let Ok(tree) = strat.new_tree(&mut runner) else {
        return FuzzOutcome::NoCase;
    };
    let case = tree.current();
    match judge(prop, &case) {
        Ok(o) => FuzzOutcome::Held { nontrivial: o.nontrivial.is_some() },
        Err(f) => {
            if let Some(i) = match_known(prop, known, &case, &f) {
                return FuzzOutcome::Known(known[i].id.clone());
            }
            if f.sig.starts_with("panic:") && !prop.panics_are_violations() {
                return FuzzOutcome::Held { nontrivial: false };
            }
            let dir = verif_root().join("replays").join(prop.id());
            let _ = std::fs::create_dir_all(&dir);
            let case_json = serde_json::to_value(&case).unwrap();
            let path = dir.join(format!("fuzz-{:016x}.json", fnv(&case_json.to_string())));
            let doc = json!({"property": prop.id(), "case": case_json, "failure": {"sig": f.sig, "msg": f.msg}, "found_by": "libFuzzer"});
            let _ = std::fs::write(&path, serde_json::to_string_pretty(&doc).unwrap());
            FuzzOutcome::Violation(path, f)
        }
    }
}
