//! Running the real command-line solver as a child process, and parsing what it prints.
use std::io::Read;
use std::path::{Path, PathBuf};
use std::process::{Command, Stdio};
use std::sync::atomic::{AtomicU64, Ordering};
use std::time::{Duration, Instant};

use crate::runner::{scratch_dir, verif_root};

pub fn cli_path() -> PathBuf {
    std::env::var("PUMPKIN_CLI").map(PathBuf::from).unwrap_or_else(|_| verif_root().join("harness/target-cli/release/pumpkin-solver"))
}

static COUNTER: AtomicU64 = AtomicU64::new(0);

/// a fresh file path in the scratch directory
pub fn scratch_file(ext: &str) -> PathBuf {
    let n = COUNTER.fetch_add(1, Ordering::Relaxed);
    scratch_dir().join(format!("f{}.{}", n, ext))
}

pub fn cleanup(paths: &[&Path]) {
    for p in paths {
        let _ = std::fs::remove_file(p);
    }
}

#[derive(Debug, Clone)]
pub struct CliOut {
    pub status: Option<i32>,
    pub stdout: String,
    pub stderr: String,
    pub timed_out: bool,
}

/// Run the solver; a run which exceeds `timeout` is killed (inconclusive, never a violation).
pub fn run_cli(args: &[String], timeout: Duration) -> CliOut {
    let exe = cli_path();
    let mut child = Command::new(&exe)
        .args(args)
        .stdin(Stdio::null())
        .stdout(Stdio::piped())
        .stderr(Stdio::piped())
        .env_remove("RUST_LOG")
        .env("RUST_BACKTRACE", "0")
        .spawn()
        .unwrap_or_else(|e| panic!("harness: cannot run {:?}: {e} (run ./build_cli.sh)", exe));
    let mut stdout = child.stdout.take().unwrap();
    let mut stderr = child.stderr.take().unwrap();
    let t_out = std::thread::spawn(move || {
        let mut s = vec![];
        let _ = stdout.read_to_end(&mut s);
        s
    });
    let t_err = std::thread::spawn(move || {
        let mut s = vec![];
        let _ = stderr.read_to_end(&mut s);
        s
    });
    let start = Instant::now();
    let mut timed_out = false;
    let status = loop {
        match child.try_wait() {
            Ok(Some(st)) => break st.code(),
            Ok(None) => {
                if start.elapsed() > timeout {
                    let _ = child.kill();
                    let _ = child.wait();
                    timed_out = true;
                    break None;
                }
                std::thread::sleep(Duration::from_micros(300));
            }
            Err(_) => break None,
        }
    };
    let stdout = String::from_utf8_lossy(&t_out.join().unwrap_or_default()).to_string();
    let stderr = String::from_utf8_lossy(&t_err.join().unwrap_or_default()).to_string();
    CliOut { status, stdout, stderr, timed_out }
}

/// lines of stdout which are not log/statistics lines
pub fn result_lines(out: &str) -> Vec<&str> {
    out.lines().map(|l| l.trim_end()).filter(|l| !l.is_empty()).collect()
}

#[derive(Debug, Clone, PartialEq, Eq)]
pub enum DimacsVerdict {
    Sat(Vec<i32>),
    Unsat,
    Unknown,
    Optimum { cost: Option<u64>, model: Vec<i32>, o_lines: Vec<u64> },
    /// something else was printed
    Malformed(String),
}

/// Parse `s` / `v` / `o` lines of the DIMACS front-ends.
pub fn parse_dimacs_output(out: &str) -> DimacsVerdict {
    let mut s_line: Option<String> = None;
    let mut v: Vec<i32> = vec![];
    let mut o: Vec<u64> = vec![];
    for l in result_lines(out) {
        if let Some(rest) = l.strip_prefix("s ") {
            if s_line.is_some() {
                return DimacsVerdict::Malformed(format!("two status lines in {:?}", out));
            }
            s_line = Some(rest.trim().to_string());
        } else if let Some(rest) = l.strip_prefix("v ").or(if l == "v" { Some("") } else { None }) {
            for tok in rest.split_whitespace() {
                match tok.parse::<i32>() {
                    Ok(x) => v.push(x),
                    Err(_) => return DimacsVerdict::Malformed(format!("bad value token {tok:?}")),
                }
            }
        } else if let Some(rest) = l.strip_prefix("o ") {
            match rest.trim().parse::<u64>() {
                Ok(x) => o.push(x),
                Err(_) => return DimacsVerdict::Malformed(format!("bad objective line {l:?}")),
            }
        } else if l.starts_with("c ") || l == "c" || l.starts_with('%') || l.starts_with("$stat$") {
            // comments / statistics
        } else {
            return DimacsVerdict::Malformed(format!("unexpected line {l:?}"));
        }
    }
    match s_line.as_deref() {
        Some("SATISFIABLE") => DimacsVerdict::Sat(v.into_iter().filter(|x| *x != 0).collect()),
        Some("UNSATISFIABLE") => DimacsVerdict::Unsat,
        Some("UNKNOWN") => DimacsVerdict::Unknown,
        Some("OPTIMUM FOUND") => DimacsVerdict::Optimum { cost: o.last().copied(), model: v.into_iter().filter(|x| *x != 0).collect(), o_lines: o },
        Some(other) => DimacsVerdict::Malformed(format!("unknown status {other:?}")),
        None => DimacsVerdict::Malformed(format!("no status line in {:?}", out)),
    }
}
