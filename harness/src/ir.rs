//! Model IR: what is generated, shrunk, hashed, serialised and rendered to API calls.
use serde::{Deserialize, Serialize};

#[derive(Clone, Debug, PartialEq, Eq, Hash, Serialize, Deserialize)]
pub enum VarDecl {
    Interval { lb: i32, ub: i32 },
    Sparse { values: Vec<i32> },
    Bool,
    /// a 0-1 variable created with `Solver::new_literal_for_predicate`: it is 1 exactly when the predicate
    /// (over an earlier, non-Boolean variable) holds
    PredLit { pred: Pred },
}

impl VarDecl {
    pub fn values(&self) -> Vec<i32> {
        match self {
            VarDecl::Interval { lb, ub } => (*lb..=*ub).collect(),
            VarDecl::Sparse { values } => {
                let mut v = values.clone();
                v.sort_unstable();
                v.dedup();
                v
            }
            VarDecl::Bool | VarDecl::PredLit { .. } => vec![0, 1],
        }
    }
    pub fn lb(&self) -> i32 {
        match self {
            VarDecl::Interval { lb, .. } => *lb,
            VarDecl::Sparse { values } => *values.iter().min().unwrap(),
            VarDecl::Bool | VarDecl::PredLit { .. } => 0,
        }
    }
    pub fn ub(&self) -> i32 {
        match self {
            VarDecl::Interval { ub, .. } => *ub,
            VarDecl::Sparse { values } => *values.iter().max().unwrap(),
            VarDecl::Bool | VarDecl::PredLit { .. } => 1,
        }
    }
    pub fn size(&self) -> u64 {
        match self {
            VarDecl::Interval { lb, ub } => (*ub as i64 - *lb as i64 + 1) as u64,
            VarDecl::Sparse { .. } => self.values().len() as u64,
            VarDecl::Bool | VarDecl::PredLit { .. } => 2,
        }
    }
    pub fn contains(&self, v: i64) -> bool {
        match self {
            VarDecl::Interval { lb, ub } => v >= *lb as i64 && v <= *ub as i64,
            VarDecl::Sparse { values } => values.iter().any(|&x| x as i64 == v),
            VarDecl::Bool | VarDecl::PredLit { .. } => v == 0 || v == 1,
        }
    }
    /// a variable over which literals can be formed
    pub fn is_boolean(&self) -> bool {
        matches!(self, VarDecl::Bool | VarDecl::PredLit { .. })
    }
    pub fn has_holes(&self) -> bool {
        match self {
            VarDecl::Sparse { .. } => self.size() < (self.ub() as i64 - self.lb() as i64 + 1) as u64,
            _ => false,
        }
    }
}

/// The view `scale * var + offset`.
#[derive(Clone, Copy, Debug, PartialEq, Eq, Hash, Serialize, Deserialize)]
pub struct Term {
    pub var: usize,
    pub scale: i32,
    pub offset: i32,
}

impl Term {
    pub fn plain(var: usize) -> Term {
        Term { var, scale: 1, offset: 0 }
    }
    pub fn is_plain(&self) -> bool {
        self.scale == 1 && self.offset == 0
    }
}

/// A literal over a `Bool` variable.
#[derive(Clone, Copy, Debug, PartialEq, Eq, Hash, Serialize, Deserialize)]
pub struct Lit {
    pub var: usize,
    pub neg: bool,
}

#[derive(Clone, Copy, Debug, PartialEq, Eq, Hash, Serialize, Deserialize)]
pub enum PKind {
    Ge,
    Le,
    Eq,
    Ne,
}

/// An atomic constraint over a view.
#[derive(Clone, Copy, Debug, PartialEq, Eq, Hash, Serialize, Deserialize)]
pub struct ViewPred {
    pub term: Term,
    pub kind: PKind,
    pub val: i32,
}

impl ViewPred {
    pub fn holds(&self, x: i64) -> bool {
        let t = self.term.scale as i64 * x + self.term.offset as i64;
        let v = self.val as i64;
        match self.kind {
            PKind::Ge => t >= v,
            PKind::Le => t <= v,
            PKind::Eq => t == v,
            PKind::Ne => t != v,
        }
    }
}

/// An atomic constraint over a (plain) variable.
#[derive(Clone, Copy, Debug, PartialEq, Eq, Hash, Serialize, Deserialize)]
pub struct Pred {
    pub var: usize,
    pub kind: PKind,
    pub val: i32,
}

impl Pred {
    pub fn holds(&self, x: i64) -> bool {
        let v = self.val as i64;
        match self.kind {
            PKind::Ge => x >= v,
            PKind::Le => x <= v,
            PKind::Eq => x == v,
            PKind::Ne => x != v,
        }
    }
    pub fn negated(&self) -> Pred {
        // only used on values far from the i32 limits
        match self.kind {
            PKind::Ge => Pred { var: self.var, kind: PKind::Le, val: self.val - 1 },
            PKind::Le => Pred { var: self.var, kind: PKind::Ge, val: self.val + 1 },
            PKind::Eq => Pred { var: self.var, kind: PKind::Ne, val: self.val },
            PKind::Ne => Pred { var: self.var, kind: PKind::Eq, val: self.val },
        }
    }
}

#[derive(Clone, Copy, Debug, PartialEq, Eq, Hash, Serialize, Deserialize)]
pub struct CumOpts {
    pub holes: bool,
    /// 0 naive, 1 big-step, 2 pointwise
    pub expl: u8,
    pub seq: bool,
    /// index into the six propagation methods
    pub method: u8,
    pub incr_backtrack: bool,
}

impl CumOpts {
    pub fn default_opts() -> CumOpts {
        CumOpts { holes: false, expl: 1, seq: false, method: 4, incr_backtrack: false }
    }
    pub fn from_index(i: usize) -> CumOpts {
        // 2 * 3 * 2 * 6 * 2 = 144
        let mut i = i % 144;
        let holes = i % 2 == 1;
        i /= 2;
        let expl = (i % 3) as u8;
        i /= 3;
        let seq = i % 2 == 1;
        i /= 2;
        let method = (i % 6) as u8;
        i /= 6;
        let incr_backtrack = i % 2 == 1;
        CumOpts { holes, expl, seq, method, incr_backtrack }
    }
    pub fn index(&self) -> usize {
        let mut i = self.incr_backtrack as usize;
        i = i * 6 + self.method as usize;
        i = i * 2 + self.seq as usize;
        i = i * 3 + self.expl as usize;
        i * 2 + self.holes as usize
    }
}

#[derive(Clone, Debug, PartialEq, Eq, Hash, Serialize, Deserialize)]
pub enum Cons {
    LinLe { terms: Vec<Term>, rhs: i32 },
    LinEq { terms: Vec<Term>, rhs: i32 },
    LinNe { terms: Vec<Term>, rhs: i32 },
    BinEq { a: Term, b: Term },
    BinNe { a: Term, b: Term },
    BinLe { a: Term, b: Term },
    BinLt { a: Term, b: Term },
    Plus { a: Term, b: Term, c: Term },
    Times { a: Term, b: Term, c: Term },
    Div { n: Term, d: Term, r: Term },
    Abs { x: Term, y: Term },
    Max { xs: Vec<Term>, m: Term },
    Min { xs: Vec<Term>, m: Term },
    Element { idx: Term, array: Vec<Term>, rhs: Term },
    AllDiff { xs: Vec<Term> },
    Clause { lits: Vec<Lit> },
    Conj { lits: Vec<Lit> },
    BoolLinLe { ws: Vec<i32>, lits: Vec<Lit>, rhs: i32 },
    BoolLinEq { ws: Vec<i32>, lits: Vec<Lit>, rhs_var: usize },
    Cumulative { starts: Vec<Term>, durs: Vec<i32>, uses: Vec<i32>, cap: i32, opts: CumOpts },
    /// `Solver::add_clause` over arbitrary predicates
    PredClause { preds: Vec<Pred> },
    /// `Solver::add_clause` over predicates on views (`predicate!(scale * x + offset >= v)` etc.)
    ViewClause { atoms: Vec<ViewPred> },
}

impl Cons {
    pub fn kind(&self) -> &'static str {
        match self {
            Cons::LinLe { .. } => "lin_le",
            Cons::LinEq { .. } => "lin_eq",
            Cons::LinNe { .. } => "lin_ne",
            Cons::BinEq { .. } => "bin_eq",
            Cons::BinNe { .. } => "bin_ne",
            Cons::BinLe { .. } => "bin_le",
            Cons::BinLt { .. } => "bin_lt",
            Cons::Plus { .. } => "plus",
            Cons::Times { .. } => "times",
            Cons::Div { .. } => "div",
            Cons::Abs { .. } => "abs",
            Cons::Max { .. } => "max",
            Cons::Min { .. } => "min",
            Cons::Element { .. } => "element",
            Cons::AllDiff { .. } => "all_diff",
            Cons::Clause { .. } => "clause",
            Cons::Conj { .. } => "conj",
            Cons::BoolLinLe { .. } => "bool_lin_le",
            Cons::BoolLinEq { .. } => "bool_lin_eq",
            Cons::Cumulative { .. } => "cumulative",
            Cons::PredClause { .. } => "pred_clause",
            Cons::ViewClause { .. } => "view_clause",
        }
    }
    pub fn is_negatable(&self) -> bool {
        matches!(
            self,
            Cons::LinLe { .. }
                | Cons::LinEq { .. }
                | Cons::LinNe { .. }
                | Cons::BinEq { .. }
                | Cons::BinNe { .. }
                | Cons::BinLe { .. }
                | Cons::BinLt { .. }
                | Cons::Clause { .. }
                | Cons::Conj { .. }
        )
    }
    /// clauses cannot be tagged (documented assertion)
    pub fn is_taggable(&self) -> bool {
        !matches!(self, Cons::Clause { .. } | Cons::Conj { .. } | Cons::PredClause { .. } | Cons::ViewClause { .. })
    }
    /// every variable occurrence (with repetitions)
    pub fn vars_multi(&self) -> Vec<usize> {
        let mut v: Vec<usize> = vec![];
        let mut t = |x: &Term| v.push(x.var);
        match self {
            Cons::LinLe { terms, .. } | Cons::LinEq { terms, .. } | Cons::LinNe { terms, .. } => {
                terms.iter().for_each(&mut t)
            }
            Cons::BinEq { a, b } | Cons::BinNe { a, b } | Cons::BinLe { a, b } | Cons::BinLt { a, b } => {
                t(a);
                t(b)
            }
            Cons::Plus { a, b, c } | Cons::Times { a, b, c } => {
                t(a);
                t(b);
                t(c)
            }
            Cons::Div { n, d, r } => {
                t(n);
                t(d);
                t(r)
            }
            Cons::Abs { x, y } => {
                t(x);
                t(y)
            }
            Cons::Max { xs, m } | Cons::Min { xs, m } => {
                xs.iter().for_each(&mut t);
                t(m)
            }
            Cons::Element { idx, array, rhs } => {
                t(idx);
                array.iter().for_each(&mut t);
                t(rhs)
            }
            Cons::AllDiff { xs } => xs.iter().for_each(&mut t),
            Cons::Clause { lits } | Cons::Conj { lits } => v.extend(lits.iter().map(|l| l.var)),
            Cons::BoolLinLe { lits, .. } => v.extend(lits.iter().map(|l| l.var)),
            Cons::BoolLinEq { lits, rhs_var, .. } => {
                v.extend(lits.iter().map(|l| l.var));
                v.push(*rhs_var)
            }
            Cons::Cumulative { starts, .. } => starts.iter().for_each(&mut t),
            Cons::PredClause { preds } => v.extend(preds.iter().map(|p| p.var)),
            Cons::ViewClause { atoms } => v.extend(atoms.iter().map(|p| p.term.var)),
        }
        v
    }

    pub fn vars(&self) -> Vec<usize> {
        let mut v = self.vars_multi();
        v.sort_unstable();
        v.dedup();
        v
    }
}

#[derive(Clone, Copy, Debug, PartialEq, Eq, Hash, Serialize, Deserialize)]
pub enum Mode {
    Post,
    ImpliedBy(Lit),
    Reify(Lit),
    Negated,
}

#[derive(Clone, Debug, PartialEq, Eq, Hash, Serialize, Deserialize)]
pub struct Posted {
    pub cons: Cons,
    pub mode: Mode,
    /// post `with_tag(index + 1)`
    pub tag: bool,
}

impl Posted {
    pub fn plain(cons: Cons) -> Posted {
        Posted { cons, mode: Mode::Post, tag: false }
    }
    /// every variable occurrence incl. the reification literal (with repetitions)
    pub fn vars_multi(&self) -> Vec<usize> {
        let mut v = self.cons.vars_multi();
        match self.mode {
            Mode::ImpliedBy(l) | Mode::Reify(l) => v.push(l.var),
            _ => {}
        }
        v
    }
    pub fn vars(&self) -> Vec<usize> {
        let mut v = self.cons.vars();
        match self.mode {
            Mode::ImpliedBy(l) | Mode::Reify(l) => v.push(l.var),
            _ => {}
        }
        v.sort_unstable();
        v.dedup();
        v
    }
}

#[derive(Clone, Debug, PartialEq, Eq, Hash, Serialize, Deserialize, Default)]
pub struct Model {
    pub vars: Vec<VarDecl>,
    pub cons: Vec<Posted>,
}

impl Model {
    pub fn space(&self) -> u128 {
        self.vars.iter().map(|v| v.size() as u128).product()
    }
    pub fn struct_hash(&self) -> u64 {
        use std::hash::{Hash, Hasher};
        let mut h = std::collections::hash_map::DefaultHasher::new();
        self.hash(&mut h);
        h.finish()
    }
}

pub fn hash_of<T: std::hash::Hash>(t: &T) -> u64 {
    use std::hash::Hasher;
    let mut h = std::collections::hash_map::DefaultHasher::new();
    t.hash(&mut h);
    h.finish()
}
