//! Generators, built by construction from primitive vectors (never by rejection), so that
//! shrinking always makes progress. Raw entropy is interpreted deterministically by `build_*`.
use proptest::collection::vec;
use proptest::prelude::*;

use crate::adapter::*;
use crate::ir::*;
use crate::runner::pick;

pub static EXCLUDED_REIF_INCR_CUM: std::sync::atomic::AtomicU64 = std::sync::atomic::AtomicU64::new(0);
pub static EXCLUDED_OVERCAP: std::sync::atomic::AtomicU64 = std::sync::atomic::AtomicU64::new(0);

#[derive(Clone, Copy, Debug, PartialEq, Eq, Hash)]
pub enum K {
    LinLe,
    LinEq,
    LinNe,
    BinEq,
    BinNe,
    BinLe,
    BinLt,
    Plus,
    Times,
    Div,
    Abs,
    Max,
    Min,
    Element,
    AllDiff,
    Clause,
    Conj,
    BoolLinLe,
    BoolLinEq,
    Cumulative,
    PredClause,
    ViewClause,
}

pub const ALL_KINDS: [K; 22] = [
    K::LinLe,
    K::LinEq,
    K::LinNe,
    K::BinEq,
    K::BinNe,
    K::BinLe,
    K::BinLt,
    K::Plus,
    K::Times,
    K::Div,
    K::Abs,
    K::Max,
    K::Min,
    K::Element,
    K::AllDiff,
    K::Clause,
    K::Conj,
    K::BoolLinLe,
    K::BoolLinEq,
    K::Cumulative,
    K::PredClause,
    K::ViewClause,
];

#[derive(Clone, Debug)]
pub struct GenParams {
    pub min_vars: usize,
    pub max_vars: usize,
    pub max_dom: u8,
    pub min_cons: usize,
    pub max_cons: usize,
    pub space_limit: u64,
    pub kinds: Vec<(K, u32)>,
    pub views: bool,
    /// permille of constraints posted half-reified / reified / negated (each)
    pub mode_permille: u32,
    pub tags: bool,
    /// all cumulative constraints of a model use this option index (None: generated)
    pub cum_opts: Option<usize>,
    /// lower bounds drawn from [-lb_span, lb_span]
    pub lb_span: i8,
    pub allow_pred_clause: bool,
    pub allow_overcap: bool,
    /// permille of constraints in which the same variable may occur more than once
    pub dup_vars_permille: u32,
    /// permille of constraints which are adjusted so that the planted assignment satisfies them
    pub plant_permille: u32,
    pub allow_reified_incremental_cumulative: bool,
    /// cumulative: largest number of tasks and largest duration
    pub max_tasks: usize,
    pub max_dur: i32,
    /// permille of variables whose domain is limited to at most two values (keeps the search space small
    /// while allowing more variables, e.g. many nearly fixed tasks)
    pub small_dom_permille: u32,
    /// generate literals defined by predicates (`new_literal_for_predicate`)
    pub pred_literals: bool,
}

impl GenParams {
    pub fn standard() -> GenParams {
        GenParams {
            min_vars: 1,
            max_vars: 6,
            max_dom: 6,
            min_cons: 0,
            max_cons: 6,
            space_limit: 6000,
            kinds: ALL_KINDS.iter().map(|k| (*k, if matches!(k, K::Cumulative) { 2 } else { 3 })).collect(),
            views: true,
            mode_permille: 120,
            tags: true,
            cum_opts: None,
            lb_span: 5,
            allow_pred_clause: true,
            allow_overcap: true,
            dup_vars_permille: std::env::var("VERIF_DUP_PERMILLE").ok().and_then(|v| v.parse().ok()).unwrap_or(100),
            plant_permille: 750,
            allow_reified_incremental_cumulative: false,
            max_tasks: 4,
            max_dur: 3,
            small_dom_permille: 0,
            pred_literals: true,
        }
    }
}

pub type RawVar = (u8, i8, u8, u16, u16);
pub type RawCons = (u16, [u16; 12], [i8; 12], u16, u16, bool);

pub fn raw_model_strategy(p: &GenParams) -> BoxedStrategy<(Vec<RawVar>, Vec<RawCons>)> {
    let span = p.lb_span;
    (
        vec((any::<u8>(), -span..=span, any::<u8>(), any::<u16>(), any::<u16>()), p.min_vars..=p.max_vars),
        vec(
            (
                any::<u16>(),
                proptest::array::uniform12(any::<u16>()),
                proptest::array::uniform12(-8i8..=8),
                any::<u16>(),
                any::<u16>(),
                any::<bool>(),
            ),
            p.min_cons..=p.max_cons,
        ),
    )
        .boxed()
}

pub fn model_strategy(p: &GenParams) -> BoxedStrategy<Model> {
    let pp = p.clone();
    raw_model_strategy(p).prop_map(move |(rv, rc)| build_model(&pp, &rv, &rc)).boxed()
}

pub fn build_vars(p: &GenParams, rv: &[RawVar]) -> Vec<VarDecl> {
    let mut vars: Vec<VarDecl> = vec![];
    let mut space: u64 = 1;
    for (kind, lb, size, mask, _) in rv {
        let room = (p.space_limit / space).max(1);
        let mut max_size = (p.max_dom as u64).min(room).max(1);
        if p.small_dom_permille > 0 && ((*mask as u32 >> 4) * 1000 >> 12) < p.small_dom_permille {
            max_size = max_size.min(2);
        }
        let size = 1 + (*size as u64 * max_size >> 8);
        let lb = *lb as i32;
        let decl = match kind % 8 {
            0..=3 => VarDecl::Interval { lb, ub: lb + size as i32 - 1 },
            4 | 5 => {
                // `size` values chosen from a span of up to 2*size+2 positions
                let span = (2 * size + 2).min(16) as usize;
                let mut vals: Vec<i32> = (0..span).filter(|i| mask >> i & 1 == 1).map(|i| lb + i as i32).collect();
                vals.truncate(size as usize);
                if vals.is_empty() {
                    vals.push(lb);
                }
                VarDecl::Sparse { values: vals }
            }
            k => {
                let targets: Vec<usize> = vars.iter().enumerate().filter(|(_, d): &(usize, &VarDecl)| !d.is_boolean()).map(|(i, _)| i).collect();
                if room >= 2 && k == 7 && !targets.is_empty() && p.pred_literals {
                    // a literal which is defined to be the truth value of a predicate over an earlier variable
                    let var = targets[*mask as usize % targets.len()];
                    let d: &VarDecl = &vars[var];
                    let span = (d.ub() as i64 - d.lb() as i64 + 3) as u64;
                    let val = (d.lb() as i64 - 1 + ((*mask as u64 >> 3) % span) as i64) as i32;
                    let kind = match size % 4 {
                        0 => PKind::Ge,
                        1 => PKind::Le,
                        2 => PKind::Eq,
                        _ => PKind::Ne,
                    };
                    VarDecl::PredLit { pred: Pred { var, kind, val } }
                } else if room >= 2 {
                    VarDecl::Bool
                } else {
                    VarDecl::Interval { lb, ub: lb }
                }
            }
        };
        space *= decl.size();
        vars.push(decl);
    }
    vars
}

/// the planted assignment: constraints are (usually) adjusted so that it satisfies them
pub fn build_witness(vars: &[VarDecl], rv: &[RawVar]) -> Vec<i32> {
    let mut w: Vec<i32> = vec![];
    for (d, r) in vars.iter().zip(rv) {
        let v = match d {
            VarDecl::PredLit { pred } => pred.holds(w[pred.var] as i64) as i32,
            _ => {
                let vals = d.values();
                vals[pick(r.4, vals.len())]
            }
        };
        w.push(v);
    }
    w
}

struct Cx<'a> {
    p: &'a GenParams,
    w: &'a [i32],
    plant: bool,
    vars: &'a [VarDecl],
    bools: Vec<usize>,
    a: &'a [u16; 12],
    s: &'a [i8; 12],
    ai: usize,
    si: usize,
    allow_dup: bool,
    used: Vec<usize>,
}

impl Cx<'_> {
    fn a(&mut self) -> u16 {
        let v = self.a[self.ai % 12];
        self.ai += 1;
        v
    }
    fn s(&mut self) -> i8 {
        let v = self.s[self.si % 12];
        self.si += 1;
        v
    }
    fn var(&mut self) -> usize {
        let a = self.a();
        if self.allow_dup {
            return pick(a, self.vars.len());
        }
        // prefer variables which do not occur in this constraint yet
        let free: Vec<usize> = (0..self.vars.len()).filter(|v| !self.used.contains(v)).collect();
        let v = if free.is_empty() { pick(a, self.vars.len()) } else { free[pick(a, free.len())] };
        self.used.push(v);
        v
    }
    fn free_count(&self) -> usize {
        (0..self.vars.len()).filter(|v| !self.used.contains(v)).count()
    }
    /// number of list elements which can be drawn (`reserve` variables are needed afterwards)
    fn cap(&self, n: usize, reserve: usize) -> usize {
        if self.allow_dup {
            n
        } else {
            n.min(self.free_count().saturating_sub(reserve)).max(1)
        }
    }
    fn term(&mut self) -> Term {
        let var = self.var();
        let s = self.s();
        let o = self.s();
        if !self.p.views {
            return Term::plain(var);
        }
        // most terms are plain; |s| small selects the scale
        let scale = match s {
            -8 | -7 => -3,
            -6 | -5 => -2,
            -4 | -3 => -1,
            5 | 6 => 2,
            7 | 8 => 3,
            _ => 1,
        };
        let offset = if o.abs() <= 4 { 0 } else { (o as i32).signum() * (o.abs() as i32 - 4) };
        Term { var, scale, offset }
    }
    fn wv(&self, t: &Term) -> i64 {
        t.scale as i64 * self.w[t.var] as i64 + t.offset as i64
    }
    fn wl(&self, l: &Lit) -> bool {
        (self.w[l.var] != 0) != l.neg
    }
    /// shift the offset of `t` so that it takes the value `target` under the witness
    fn aim(&self, t: &mut Term, target: i64) {
        if self.plant {
            let delta = target - self.wv(t);
            if delta.abs() < 1000 {
                t.offset += delta as i32;
            }
        }
    }
    fn range(&self, t: &Term) -> (i64, i64) {
        let d = &self.vars[t.var];
        let x = t.scale as i64 * d.lb() as i64 + t.offset as i64;
        let y = t.scale as i64 * d.ub() as i64 + t.offset as i64;
        (x.min(y), x.max(y))
    }
    fn lit(&mut self) -> Option<Lit> {
        if self.bools.is_empty() {
            return None;
        }
        let a = self.a();
        let free: Vec<usize> = self.bools.iter().copied().filter(|v| self.allow_dup || !self.used.contains(v)).collect();
        let var = if free.is_empty() { self.bools[pick(a, self.bools.len())] } else { free[pick(a, free.len())] };
        self.used.push(var);
        Some(Lit { var, neg: self.s() < -2 })
    }
    /// a value in [lo, hi] (biased inside), occasionally just outside
    fn within(&mut self, lo: i64, hi: i64) -> i32 {
        let a = self.a() as i64;
        let s = self.s() as i64;
        let base = lo + ((hi - lo + 1) * a >> 16);
        let adj = if s.abs() >= 7 { s.signum() * (hi - lo + 1).max(1) } else { 0 };
        (base + adj).clamp(i32::MIN as i64 / 2, i32::MAX as i64 / 2) as i32
    }
}

pub fn build_cons(p: &GenParams, vars: &[VarDecl], w: &[i32], rc: &RawCons, index: usize) -> Option<Posted> {
    let (kind, a, s, mode_pick, lit_pick, tag) = rc;
    let plant = ((*lit_pick as u32 * 1000) >> 16) < p.plant_permille;
    let bools: Vec<usize> = vars.iter().enumerate().filter(|(_, d)| d.is_boolean()).map(|(i, _)| i).collect();
    let allow_dup = ((a[11] as u32 * 1000) >> 16) < p.dup_vars_permille;
    let mut cx = Cx { p, w, plant, vars, bools, a, s, ai: 0, si: 0, allow_dup, used: vec![] };
    if vars.is_empty() {
        return None;
    }
    let total: u32 = p.kinds.iter().map(|k| k.1).sum();
    let mut w = (*kind as u32 * total) >> 16;
    let mut k = p.kinds[0].0;
    for (kk, ww) in &p.kinds {
        if w < *ww {
            k = *kk;
            break;
        }
        w -= ww;
    }
    let needs_bool = matches!(k, K::Clause | K::Conj | K::BoolLinLe | K::BoolLinEq);
    if needs_bool && cx.bools.is_empty() {
        k = K::LinLe;
    }
    if matches!(k, K::PredClause | K::ViewClause) && !p.allow_pred_clause {
        k = K::LinNe;
    }
    if !allow_dup {
        // kinds which need more distinct variables than the model has are replaced
        let need = match k {
            K::BinEq | K::BinNe | K::BinLe | K::BinLt | K::Abs | K::Max | K::Min | K::AllDiff | K::BoolLinEq => 2,
            K::Plus | K::Times | K::Div | K::Element => 3,
            _ => 1,
        };
        if vars.len() < need {
            k = K::LinLe;
        }
    }
    let cons = match k {
        K::LinLe | K::LinEq | K::LinNe => {
            let r = cx.a();
            let n = cx.cap(1 + pick(r, 4), 0);
            let terms: Vec<Term> = (0..n).map(|_| cx.term()).collect();
            let (lo, hi) = terms.iter().map(|t| cx.range(t)).fold((0, 0), |acc, r| (acc.0 + r.0, acc.1 + r.1));
            let mut rhs = cx.within(lo, hi);
            if cx.plant {
                let lhs: i64 = terms.iter().map(|t| cx.wv(t)).sum();
                let slack = (cx.s().unsigned_abs() as i64) % 3;
                rhs = match k {
                    K::LinLe => lhs + slack,
                    K::LinEq => lhs,
                    _ => {
                        if rhs as i64 == lhs {
                            lhs + 1 + slack
                        } else {
                            rhs as i64
                        }
                    }
                } as i32;
            }
            match k {
                K::LinLe => Cons::LinLe { terms, rhs },
                K::LinEq => Cons::LinEq { terms, rhs },
                _ => Cons::LinNe { terms, rhs },
            }
        }
        K::BinEq => {
            let a = cx.term();
            let mut b = cx.term();
            cx.aim(&mut b, cx.wv(&a));
            Cons::BinEq { a, b }
        }
        K::BinNe => Cons::BinNe { a: cx.term(), b: cx.term() },
        K::BinLe => {
            let a = cx.term();
            let mut b = cx.term();
            if cx.wv(&a) > cx.wv(&b) {
                cx.aim(&mut b, cx.wv(&a));
            }
            Cons::BinLe { a, b }
        }
        K::BinLt => {
            let a = cx.term();
            let mut b = cx.term();
            if cx.wv(&a) >= cx.wv(&b) {
                cx.aim(&mut b, cx.wv(&a) + 1);
            }
            Cons::BinLt { a, b }
        }
        K::Plus => {
            let (a, b, mut c) = (cx.term(), cx.term(), cx.term());
            cx.aim(&mut c, cx.wv(&a) + cx.wv(&b));
            Cons::Plus { a, b, c }
        }
        K::Times => {
            let (a, b, mut c) = (cx.term(), cx.term(), cx.term());
            cx.aim(&mut c, cx.wv(&a) * cx.wv(&b));
            Cons::Times { a, b, c }
        }
        K::Div => {
            let n = cx.term();
            let mut d = cx.term();
            let mut r = cx.term();
            // documented precondition: 0 is not in the domain of the denominator
            let (lo, hi) = cx.range(&d);
            if lo <= 0 && hi >= 0 {
                let zero_possible = vars[d.var].values().iter().any(|v| d.scale as i64 * *v as i64 + d.offset as i64 == 0);
                if zero_possible {
                    // shift so that every value is >= 1 or <= -1
                    if cx.s() >= 0 {
                        d.offset += (1 - lo) as i32;
                    } else {
                        d.offset -= (hi + 1) as i32;
                    }
                }
            }
            if cx.wv(&d) != 0 {
                cx.aim(&mut r, cx.wv(&n) / cx.wv(&d));
            }
            Cons::Div { n, d, r }
        }
        K::Abs => {
            let x = cx.term();
            let mut y = cx.term();
            cx.aim(&mut y, cx.wv(&x).abs());
            Cons::Abs { x, y }
        }
        K::Max | K::Min => {
            let r = cx.a();
            let n = cx.cap(1 + pick(r, 4), 1);
            let xs: Vec<Term> = (0..n).map(|_| cx.term()).collect();
            let mut m = cx.term();
            let target = if k == K::Max { xs.iter().map(|t| cx.wv(t)).max() } else { xs.iter().map(|t| cx.wv(t)).min() };
            cx.aim(&mut m, target.unwrap());
            if k == K::Max {
                Cons::Max { xs, m }
            } else {
                Cons::Min { xs, m }
            }
        }
        K::Element => {
            let r = cx.a();
            let n = cx.cap(1 + pick(r, 4), 2);
            let array: Vec<Term> = (0..n).map(|_| cx.term()).collect();
            let mut idx = cx.term();
            // usually align the index range with the array
            if cx.s().abs() < 6 {
                let (lo, _) = cx.range(&idx);
                idx.offset -= lo as i32;
                if cx.s() > 5 {
                    idx.offset -= 1;
                }
            }
            let mut rhs = cx.term();
            if cx.plant {
                let i = cx.wv(&idx);
                if i < 0 || i >= array.len() as i64 {
                    let want = pick(cx.a(), array.len()) as i64;
                    cx.aim(&mut idx, want);
                }
                let i = cx.wv(&idx);
                if i >= 0 && i < array.len() as i64 {
                    cx.aim(&mut rhs, cx.wv(&array[i as usize]));
                }
            }
            Cons::Element { idx, array, rhs }
        }
        K::AllDiff => {
            let r = cx.a();
            let n = cx.cap(2 + pick(r, 3), 0);
            Cons::AllDiff { xs: (0..n).map(|_| cx.term()).collect() }
        }
        K::Clause | K::Conj => {
            let n = pick(cx.a(), 4) + if cx.s() > 6 { 0 } else { 1 };
            let mut lits: Vec<Lit> = (0..n).filter_map(|_| cx.lit()).collect();
            if cx.plant {
                if k == K::Clause {
                    if !lits.is_empty() && !lits.iter().any(|l| cx.wl(l)) {
                        lits[0].neg = !lits[0].neg;
                    }
                } else {
                    for l in lits.iter_mut() {
                        if !cx.wl(l) {
                            l.neg = !l.neg;
                        }
                    }
                }
            }
            if k == K::Clause {
                Cons::Clause { lits }
            } else {
                Cons::Conj { lits }
            }
        }
        K::BoolLinLe | K::BoolLinEq => {
            let free_bools = cx.bools.iter().filter(|v| !cx.used.contains(v)).count();
            let n = if cx.allow_dup { 1 + pick(cx.a(), 4) } else { (1 + pick(cx.a(), 4)).min(free_bools).max(1) };
            let lits: Vec<Lit> = (0..n).filter_map(|_| cx.lit()).collect();
            // zero weights are excluded by construction (known finding KF-zero-scale)
            let ws: Vec<i32> = lits.iter().map(|_| (cx.s() as i32).clamp(-3, 3)).map(|w| if w == 0 { 1 } else { w }).collect();
            let lo: i64 = ws.iter().map(|w| (*w as i64).min(0)).sum();
            let hi: i64 = ws.iter().map(|w| (*w as i64).max(0)).sum();
            if k == K::BoolLinLe {
                let mut rhs = cx.within(lo, hi);
                if cx.plant {
                    let lhs: i64 = ws.iter().zip(&lits).map(|(w, l)| if cx.wl(l) { *w as i64 } else { 0 }).sum();
                    rhs = (lhs + (cx.s().unsigned_abs() as i64) % 2) as i32;
                }
                Cons::BoolLinLe { ws, lits, rhs }
            } else {
                Cons::BoolLinEq { ws, lits, rhs_var: cx.var() }
            }
        }
        K::Cumulative => {
            let r = cx.a();
            let n = cx.cap(1 + pick(r, p.max_tasks), 0);
            let starts: Vec<Term> = (0..n).map(|_| cx.term()).collect();
            let mut durs: Vec<i32> = (0..n).map(|_| (cx.s().unsigned_abs() as i32) % (p.max_dur + 1)).collect();
            let uses: Vec<i32> = (0..n).map(|_| (cx.s().unsigned_abs() as i32) % 4).collect();
            let cap = pick(cx.a(), 5) as i32;
            // a task with positive duration whose usage exceeds the capacity is excluded by
            // construction (known finding KF-cumulative-overcap); counted in EXCLUDED_OVERCAP
            let mut uses = uses;
            for i in 0..n {
                if durs[i] > 0 && uses[i] > cap && !p.allow_overcap {
                    uses[i] = cap;
                    EXCLUDED_OVERCAP.fetch_add(1, std::sync::atomic::Ordering::Relaxed);
                }
            }
            // one constraint in eight gets a long task which saturates the resource: every other task has to
            // avoid it, and task sets which cannot are infeasible without any single task exceeding the capacity
            // (the incremental propagators then tend to report the conflict late)
            if (r >> 8) % 8 == 0 && n >= 2 && cap > 0 {
                uses[0] = cap;
                durs[0] = durs[0].max(3.min(p.max_dur));
            }
            let opts = match p.cum_opts {
                Some(i) => CumOpts::from_index(i),
                None => CumOpts::from_index(cx.a() as usize),
            };
            Cons::Cumulative { starts, durs, uses, cap, opts }
        }
        K::PredClause => {
            let n = 1 + pick(cx.a(), 3);
            let preds: Vec<Pred> = (0..n)
                .map(|_| {
                    let var = cx.var();
                    let d = &vars[var];
                    let val = cx.within(d.lb() as i64 - 1, d.ub() as i64 + 1);
                    let kind = match cx.a() % 4 {
                        0 => PKind::Ge,
                        1 => PKind::Le,
                        2 => PKind::Eq,
                        _ => PKind::Ne,
                    };
                    Pred { var, kind, val }
                })
                .collect();
            Cons::PredClause { preds }
        }
        K::ViewClause => {
            let n = 1 + pick(cx.a(), 3);
            let mut atoms: Vec<ViewPred> = (0..n)
                .map(|_| {
                    // views with a scale of magnitude up to 3 and an offset which is usually not a multiple of it
                    let var = cx.var();
                    let scale = [-3, -2, -1, 1, 2, 3][pick(cx.a(), 6)];
                    let offset = (cx.s() as i32).clamp(-4, 4);
                    let term = Term { var, scale, offset };
                    let d = &vars[var];
                    let (x, y) = (scale as i64 * d.lb() as i64 + offset as i64, scale as i64 * d.ub() as i64 + offset as i64);
                    let val = cx.within(x.min(y) - 1, x.max(y) + 1);
                    let kind = match cx.a() % 4 {
                        0 => PKind::Ge,
                        1 => PKind::Le,
                        2 => PKind::Eq,
                        _ => PKind::Ne,
                    };
                    ViewPred { term, kind, val }
                })
                .collect();
            if cx.plant && !atoms.iter().any(|p| p.holds(cx.w[p.term.var] as i64)) {
                // make the first atom true under the planted assignment
                let p = &mut atoms[0];
                let t = p.term.scale as i64 * cx.w[p.term.var] as i64 + p.term.offset as i64;
                match p.kind {
                    PKind::Ne => p.val = (t + 1) as i32,
                    _ => p.val = t as i32,
                }
            }
            Cons::ViewClause { atoms }
        }
    };
    let m = (*mode_pick as u32 * 1000) >> 16;
    let pm = p.mode_permille;
    let mode = if matches!(cons, Cons::PredClause { .. } | Cons::ViewClause { .. }) {
        Mode::Post
    } else if m < pm {
        cx.lit().map(Mode::ImpliedBy).unwrap_or(Mode::Post)
    } else if m < 2 * pm {
        match cx.lit() {
            Some(l) if cons.is_negatable() => Mode::Reify(l),
            Some(l) => Mode::ImpliedBy(l),
            None => Mode::Post,
        }
    } else if m < 3 * pm && cons.is_negatable() {
        Mode::Negated
    } else {
        Mode::Post
    };
    let _ = index;
    let mut cons = cons;
    if let (Cons::Cumulative { opts, .. }, false) = (&mut cons, matches!(mode, Mode::Post)) {
        // known finding KF-reified-incremental-cumulative: excluded by construction
        if matches!(opts.method, 1 | 2 | 4 | 5) && !p.allow_reified_incremental_cumulative {
            opts.method = if opts.method <= 2 { 0 } else { 3 };
            EXCLUDED_REIF_INCR_CUM.fetch_add(1, std::sync::atomic::Ordering::Relaxed);
        }
    }
    Some(Posted { cons, mode, tag: *tag && p.tags })
}

pub fn build_model(p: &GenParams, rv: &[RawVar], rc: &[RawCons]) -> Model {
    let vars = build_vars(p, rv);
    let w = build_witness(&vars, rv);
    let cons = rc.iter().enumerate().filter_map(|(i, c)| build_cons(p, &vars, &w, c, i)).collect();
    Model { vars, cons }
}

// ------------------------------------------------------------------------------------------
// configurations

pub type RawSel = (u8, u8, bool, bool);
pub type RawConfig = (u8, [u8; 12], u64, (u8, Vec<RawSel>, bool));

pub fn raw_config_strategy() -> BoxedStrategy<RawConfig> {
    (
        any::<u8>(),
        proptest::array::uniform12(any::<u8>()),
        0u64..8,
        (any::<u8>(), vec((any::<u8>(), any::<u8>(), any::<bool>(), any::<bool>()), 1..=3), any::<bool>()),
    )
        .boxed()
}

pub fn build_sel(r: &RawSel) -> Sel {
    Sel { vs: r.0 % NUM_VS, vl: r.1 % NUM_VL, tie_random: r.2, dynamic: r.3 }
}

pub fn build_brancher(r: &(u8, Vec<RawSel>, bool)) -> BrSpec {
    let sels: Vec<Sel> = r.1.iter().map(build_sel).collect();
    match r.0 % 10 {
        0..=2 => BrSpec::Default,
        3..=6 => BrSpec::Indep(sels[0].clone()),
        7 => BrSpec::Dynamic { parts: sels, interleave: r.2, build: (r.0 / 10) % 4 },
        8 => BrSpec::Alternating { strategy: r.0 / 10, other: sels[0].clone() },
        _ => BrSpec::AutoCustom(sels[0].clone()),
    }
}

/// Thresholds are generated small so that restarts and nogood clean-up actually run on tiny
/// instances.
pub fn build_config(r: &RawConfig) -> Config {
    let (shape, b, seed, br) = r;
    let mut c = Config::default_cfg();
    c.seed = *seed;
    c.brancher = build_brancher(br);
    match shape % 8 {
        0 | 1 => {
            // default options
        }
        _ => {
            c.no_learning = b[0] % 5 == 0;
            c.minimise = b[1] % 3 != 0;
            c.named = b[2] % 4 == 0;
            c.restart = RestartCfg {
                seq: b[3] % 3,
                base_interval: 1 + (b[4] % 5) as u64,
                min_first: (b[5] % 4) as u64,
                lbd_coef_x100: [0, 50, 100, 125, 200][(b[6] % 5) as usize],
                num_assigned_coef_x100: [0, 100, 140, 1000][(b[7] % 4) as usize],
                window: 1 + (b[8] % 6) as u64,
                geometric_coef_x100: [0, 10, 50, 100][(b[8] / 64) as usize],
                no_restarts: b[9] % 6 == 0,
            };
            c.learning = LearnCfg {
                max_activity_exp: [20, 1, 0, 3][(b[10] % 4) as usize],
                decay_x1000: [990, 500, 999, 100][(b[10] / 64) as usize],
                limit_high_lbd: (b[11] % 9) as usize,
                lbd_threshold: (b[11] / 43) as u32,
                sort_by_activity: b[9] % 2 == 0,
                bump_x100: [100, 1000, 1][(b[0] / 86) as usize % 3],
            };
        }
    }
    c
}

pub fn config_strategy() -> BoxedStrategy<Config> {
    raw_config_strategy().prop_map(|r| build_config(&r)).boxed()
}

/// configurations used by every C07 case in addition to the generated ones
pub fn special_configs() -> Vec<Config> {
    let d = Config::default_cfg();
    let mut no_learning = d.clone();
    no_learning.no_learning = true;
    let mut restart_always = d.clone();
    restart_always.restart = RestartCfg {
        seq: 0,
        base_interval: 1,
        min_first: 0,
        lbd_coef_x100: 0,
        num_assigned_coef_x100: 100000,
        window: 1,
        geometric_coef_x100: 0,
        no_restarts: false,
    };
    let mut delete_all = d.clone();
    delete_all.learning.limit_high_lbd = 0;
    delete_all.learning.lbd_threshold = 0;
    delete_all.learning.sort_by_activity = true;
    let mut delete_all_lbd = delete_all.clone();
    delete_all_lbd.learning.sort_by_activity = false;
    // (restarting after every conflict *and* deleting every learned nogood cannot make progress)
    delete_all_lbd.restart.base_interval = 3;
    delete_all_lbd.restart.min_first = 2;
    delete_all_lbd.restart.seq = 2;
    let mut no_min = d.clone();
    no_min.minimise = false;
    no_min.seed = 7;
    vec![d, no_learning, restart_always, delete_all, delete_all_lbd, no_min]
}
