//! Thin wrappers around the solving entry points of the public API, returning plain data.
use std::cell::RefCell;

use pumpkin_solver::optimisation::linear_sat_unsat::LinearSatUnsat;
use pumpkin_solver::optimisation::linear_unsat_sat::LinearUnsatSat;
use pumpkin_solver::optimisation::OptimisationDirection;
use pumpkin_solver::predicates::Predicate;
use pumpkin_solver::results::solution_iterator::IteratedSolution;
use pumpkin_solver::results::{OptimisationResult, SatisfactionResult, SatisfactionResultUnderAssumptions, SolutionReference};
use pumpkin_solver::Solver;
use serde::{Deserialize, Serialize};

use crate::adapter::*;
use crate::ir::*;
use crate::sem::Asg;

pub const BUDGET: u64 = 200_000;

#[derive(Clone, Debug, PartialEq, Eq, Serialize, Deserialize)]
pub enum SatRes {
    Sat(Asg),
    Unsat,
    Unknown,
}

pub fn satisfy(b: &mut Built, br: &mut ObsBrancher, t: &mut CountingTermination) -> SatRes {
    match b.solver.satisfy(br, t) {
        SatisfactionResult::Satisfiable(s) => SatRes::Sat(b.extract(&s)),
        SatisfactionResult::Unsatisfiable => SatRes::Unsat,
        SatisfactionResult::Unknown => SatRes::Unknown,
    }
}

#[derive(Clone, Copy, Debug, PartialEq, Eq, Serialize, Deserialize)]
pub enum IterEnd {
    Finished,
    Unsat,
    Unknown,
    /// stopped by the harness after `max` solutions
    Limit,
}

pub fn iterate(b: &mut Built, br: &mut ObsBrancher, t: &mut CountingTermination, max: usize) -> (Vec<Asg>, IterEnd) {
    let doms = b.doms.clone();
    let mut out = vec![];
    let mut it = b.solver.get_solution_iterator(br, t);
    loop {
        if out.len() >= max {
            return (out, IterEnd::Limit);
        }
        match it.next_solution() {
            IteratedSolution::Solution(s, _, _) => {
                use pumpkin_solver::results::ProblemSolution;
                out.push(doms.iter().map(|d| s.get_integer_value(*d)).collect());
            }
            IteratedSolution::Finished => return (out, IterEnd::Finished),
            IteratedSolution::Unsatisfiable => return (out, IterEnd::Unsat),
            IteratedSolution::Unknown => return (out, IterEnd::Unknown),
        }
    }
}

#[derive(Clone, Debug, PartialEq, Eq, Serialize, Deserialize)]
pub enum OptRes {
    Optimal(Asg),
    Satisfiable(Asg),
    Unsat,
    Unknown,
}

/// returns the result and the solutions passed to the callback, in order
pub fn optimise(
    b: &mut Built,
    br: &mut ObsBrancher,
    t: &mut CountingTermination,
    lsu: bool,
    maximise: bool,
    objective: &Term,
) -> (OptRes, Vec<Asg>) {
    let doms = b.doms.clone();
    let seen: RefCell<Vec<Asg>> = RefCell::new(vec![]);
    let cb = |_: &Solver, s: SolutionReference, _: &ObsBrancher| {
        use pumpkin_solver::results::ProblemSolution;
        seen.borrow_mut().push(doms.iter().map(|d| s.get_integer_value(*d)).collect());
    };
    let dir = if maximise { OptimisationDirection::Maximise } else { OptimisationDirection::Minimise };
    let obj = b.term(objective);
    let r = if lsu {
        b.solver.optimise(br, t, LinearSatUnsat::new(dir, obj, cb))
    } else {
        b.solver.optimise(br, t, LinearUnsatSat::new(dir, obj, cb))
    };
    let r = match r {
        OptimisationResult::Optimal(s) => OptRes::Optimal(b.extract(&s)),
        OptimisationResult::Satisfiable(s) => OptRes::Satisfiable(b.extract(&s)),
        OptimisationResult::Unsatisfiable => OptRes::Unsat,
        OptimisationResult::Unknown => OptRes::Unknown,
    };
    (r, seen.into_inner())
}

#[derive(Clone, Debug, PartialEq, Eq, Serialize, Deserialize)]
pub enum CoreRes {
    NotExtracted,
    Core(Vec<Pred>),
    /// `extract_core` panicked with the documented "Conflicting assumptions" message
    ConflictingAssumptions(String),
    /// the core contains a predicate over a variable unknown to the model
    Foreign(String),
}

#[derive(Clone, Debug, PartialEq, Eq, Serialize, Deserialize)]
pub enum AssRes {
    Sat(Asg),
    UnsatUnderAssumptions(CoreRes),
    Unsat,
    Unknown,
}

pub fn satisfy_under_assumptions(
    b: &mut Built,
    br: &mut ObsBrancher,
    t: &mut CountingTermination,
    assumptions: &[Pred],
    extract_core: bool,
) -> AssRes {
    let preds: Vec<Predicate> = assumptions.iter().map(|p| b.pred(p)).collect();
    let doms = b.doms.clone();
    let r = b.solver.satisfy_under_assumptions(br, t, &preds);
    match r {
        SatisfactionResultUnderAssumptions::Satisfiable(s) => {
            use pumpkin_solver::results::ProblemSolution;
            AssRes::Sat(doms.iter().map(|d| s.get_integer_value(*d)).collect())
        }
        SatisfactionResultUnderAssumptions::UnsatisfiableUnderAssumptions(mut u) => {
            if !extract_core {
                return AssRes::UnsatUnderAssumptions(CoreRes::NotExtracted);
            }
            // the documented report of directly conflicting assumptions is a panic with a fixed text
            let core = std::panic::catch_unwind(std::panic::AssertUnwindSafe(|| u.extract_core()));
            match core {
                Ok(core) => {
                    let mut out = vec![];
                    for p in core.iter() {
                        let var = doms.iter().position(|d| *d == p.get_domain());
                        match var {
                            Some(var) => out.push(match *p {
                                Predicate::LowerBound { lower_bound, .. } => Pred { var, kind: PKind::Ge, val: lower_bound },
                                Predicate::UpperBound { upper_bound, .. } => Pred { var, kind: PKind::Le, val: upper_bound },
                                Predicate::Equal { equality_constant, .. } => Pred { var, kind: PKind::Eq, val: equality_constant },
                                Predicate::NotEqual { not_equal_constant, .. } => {
                                    Pred { var, kind: PKind::Ne, val: not_equal_constant }
                                }
                            }),
                            None => return AssRes::UnsatUnderAssumptions(CoreRes::Foreign(format!("{:?}", p))),
                        }
                    }
                    AssRes::UnsatUnderAssumptions(CoreRes::Core(out))
                }
                Err(e) => {
                    let msg = e
                        .downcast_ref::<String>()
                        .cloned()
                        .or_else(|| e.downcast_ref::<&str>().map(|s| s.to_string()))
                        .unwrap_or_default();
                    if msg.starts_with("Conflicting assumptions were provided") {
                        AssRes::UnsatUnderAssumptions(CoreRes::ConflictingAssumptions(msg))
                    } else {
                        std::panic::resume_unwind(e)
                    }
                }
            }
        }
        SatisfactionResultUnderAssumptions::Unsatisfiable => AssRes::Unsat,
        SatisfactionResultUnderAssumptions::Unknown => AssRes::Unknown,
    }
}
