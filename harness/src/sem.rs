//! Exact reference semantics (i128 arithmetic) and the exhaustive solution enumerator.
//! Written from the documentation of `pumpkin_solver::constraints`, never from the propagators.
use crate::ir::*;

pub type Asg = Vec<i32>;

#[inline]
pub fn tv(t: &Term, a: &[i32]) -> i128 {
    t.scale as i128 * a[t.var] as i128 + t.offset as i128
}

#[inline]
pub fn lv(l: &Lit, a: &[i32]) -> bool {
    (a[l.var] != 0) != l.neg
}

pub fn holds(c: &Cons, a: &[i32]) -> bool {
    match c {
        Cons::LinLe { terms, rhs } => terms.iter().map(|t| tv(t, a)).sum::<i128>() <= *rhs as i128,
        Cons::LinEq { terms, rhs } => terms.iter().map(|t| tv(t, a)).sum::<i128>() == *rhs as i128,
        Cons::LinNe { terms, rhs } => terms.iter().map(|t| tv(t, a)).sum::<i128>() != *rhs as i128,
        Cons::BinEq { a: x, b } => tv(x, a) == tv(b, a),
        Cons::BinNe { a: x, b } => tv(x, a) != tv(b, a),
        Cons::BinLe { a: x, b } => tv(x, a) <= tv(b, a),
        Cons::BinLt { a: x, b } => tv(x, a) < tv(b, a),
        Cons::Plus { a: x, b, c } => tv(x, a) + tv(b, a) == tv(c, a),
        Cons::Times { a: x, b, c } => tv(x, a) * tv(b, a) == tv(c, a),
        Cons::Div { n, d, r } => {
            let d = tv(d, a);
            d != 0 && tv(n, a) / d == tv(r, a)
        }
        Cons::Abs { x, y } => tv(x, a).abs() == tv(y, a),
        Cons::Max { xs, m } => xs.iter().map(|t| tv(t, a)).max().is_some_and(|v| v == tv(m, a)),
        Cons::Min { xs, m } => xs.iter().map(|t| tv(t, a)).min().is_some_and(|v| v == tv(m, a)),
        Cons::Element { idx, array, rhs } => {
            let i = tv(idx, a);
            i >= 0 && (i as usize) < array.len() && tv(&array[i as usize], a) == tv(rhs, a)
        }
        Cons::AllDiff { xs } => {
            for i in 0..xs.len() {
                for j in i + 1..xs.len() {
                    if tv(&xs[i], a) == tv(&xs[j], a) {
                        return false;
                    }
                }
            }
            true
        }
        Cons::Clause { lits } => lits.iter().any(|l| lv(l, a)),
        Cons::Conj { lits } => lits.iter().all(|l| lv(l, a)),
        Cons::BoolLinLe { ws, lits, rhs } => {
            ws.iter().zip(lits).map(|(w, l)| if lv(l, a) { *w as i128 } else { 0 }).sum::<i128>()
                <= *rhs as i128
        }
        Cons::BoolLinEq { ws, lits, rhs_var } => {
            ws.iter().zip(lits).map(|(w, l)| if lv(l, a) { *w as i128 } else { 0 }).sum::<i128>()
                == a[*rhs_var] as i128
        }
        Cons::Cumulative { starts, durs, uses, cap, .. } => cumulative_holds(starts, durs, uses, *cap, a),
        Cons::PredClause { preds } => preds.iter().any(|p| p.holds(a[p.var] as i64)),
        Cons::ViewClause { atoms } => atoms.iter().any(|p| p.holds(a[p.term.var] as i64)),
    }
}

/// forall t: sum { use_i | s_i <= t < s_i + d_i } <= cap
pub fn cumulative_holds(starts: &[Term], durs: &[i32], uses: &[i32], cap: i32, a: &[i32]) -> bool {
    let n = starts.len();
    for i in 0..n {
        if durs[i] <= 0 {
            continue;
        }
        // the load profile only increases at start times
        let t = tv(&starts[i], a);
        let mut load: i128 = 0;
        for j in 0..n {
            let s = tv(&starts[j], a);
            if durs[j] > 0 && s <= t && t < s + durs[j] as i128 {
                load += uses[j] as i128;
            }
        }
        if load > cap as i128 {
            return false;
        }
    }
    true
}

pub fn holds_posted(p: &Posted, a: &[i32]) -> bool {
    let c = holds(&p.cons, a);
    match p.mode {
        Mode::Post => c,
        Mode::ImpliedBy(l) => !lv(&l, a) || c,
        Mode::Reify(l) => lv(&l, a) == c,
        Mode::Negated => !c,
    }
}

/// the variables defined by `new_literal_for_predicate` equal the truth value of their predicate
pub fn link_holds(m: &Model, var: usize, a: &[i32]) -> bool {
    match &m.vars[var] {
        VarDecl::PredLit { pred } => (a[var] == 1) == pred.holds(a[pred.var] as i64),
        _ => true,
    }
}

pub fn is_solution(m: &Model, a: &[i32]) -> bool {
    a.len() == m.vars.len()
        && m.vars.iter().zip(a).all(|(d, v)| d.contains(*v as i64))
        && (0..m.vars.len()).all(|i| link_holds(m, i, a))
        && m.cons.iter().all(|p| holds_posted(p, a))
}

/// which constraint (index) or variable domain is violated by `a`
pub fn first_violation(m: &Model, a: &[i32]) -> Option<String> {
    if a.len() != m.vars.len() {
        return Some(format!("assignment has {} values for {} variables", a.len(), m.vars.len()));
    }
    for (i, (d, v)) in m.vars.iter().zip(a).enumerate() {
        if !d.contains(*v as i64) {
            return Some(format!("variable {} = {} outside declared domain {:?}", i, v, d));
        }
    }
    for i in 0..m.vars.len() {
        if !link_holds(m, i, a) {
            return Some(format!("variable {} = {} does not equal the truth value of its defining predicate {:?}", i, a[i], m.vars[i]));
        }
    }
    for (i, p) in m.cons.iter().enumerate() {
        if !holds_posted(p, a) {
            return Some(format!("constraint #{} violated: {:?}", i, p));
        }
    }
    None
}

/// All solutions, by backtracking over the declared domains in declaration order; every
/// constraint is evaluated as soon as its last variable is assigned.
/// Returns None when more than `leaf_limit` nodes were visited.
pub fn solutions(m: &Model, leaf_limit: u64) -> Option<Vec<Asg>> {
    let n = m.vars.len();
    let doms: Vec<Vec<i32>> = m.vars.iter().map(|d| d.values()).collect();
    let mut at_depth: Vec<Vec<usize>> = vec![vec![]; n + 1];
    for (ci, p) in m.cons.iter().enumerate() {
        let d = p.vars().last().map(|v| v + 1).unwrap_or(0);
        at_depth[d].push(ci);
    }
    let mut out = vec![];
    let mut a: Asg = vec![0; n];
    // constraints without variables
    for &ci in &at_depth[0] {
        if !holds_posted(&m.cons[ci], &a) {
            return Some(out);
        }
    }
    let mut nodes: u64 = 0;
    fn rec(
        depth: usize,
        n: usize,
        doms: &[Vec<i32>],
        at_depth: &[Vec<usize>],
        m: &Model,
        a: &mut Asg,
        out: &mut Vec<Asg>,
        nodes: &mut u64,
        limit: u64,
    ) -> bool {
        if depth == n {
            out.push(a.clone());
            return true;
        }
        for &v in &doms[depth] {
            *nodes += 1;
            if *nodes > limit {
                return false;
            }
            a[depth] = v;
            if link_holds(m, depth, a) && at_depth[depth + 1].iter().all(|&ci| holds_posted(&m.cons[ci], a)) {
                if !rec(depth + 1, n, doms, at_depth, m, a, out, nodes, limit) {
                    return false;
                }
            }
        }
        true
    }
    if rec(0, n, &doms, &at_depth, m, &mut a, &mut out, &mut nodes, leaf_limit) {
        Some(out)
    } else {
        None
    }
}

/// Dumb product-of-domains loop, used to cross-check `solutions` in the harness self-test.
pub fn solutions_naive(m: &Model) -> Vec<Asg> {
    let doms: Vec<Vec<i32>> = m.vars.iter().map(|d| d.values()).collect();
    let n = doms.len();
    let mut idx = vec![0usize; n];
    let mut out = vec![];
    if doms.iter().any(|d| d.is_empty()) {
        return out;
    }
    loop {
        let a: Asg = (0..n).map(|i| doms[i][idx[i]]).collect();
        if (0..n).all(|i| link_holds(m, i, &a)) && m.cons.iter().all(|p| holds_posted(p, &a)) {
            out.push(a);
        }
        let mut k = n;
        loop {
            if k == 0 {
                out.sort();
                return out;
            }
            k -= 1;
            idx[k] += 1;
            if idx[k] < doms[k].len() {
                break;
            }
            idx[k] = 0;
        }
    }
}
