//! C04 (optimisation returns a true optimum), C05 (assumptions and cores), C12 (root bounds).
use proptest::prelude::*;
use serde::{Deserialize, Serialize};
use serde_json::json;

use crate::adapter::*;
use crate::gen::*;
use crate::ir::*;
use crate::ops::*;
use crate::props::solve::*;
use crate::runner::*;
use crate::sem;

// ------------------------------------------------------------------------------------------
// C04

pub struct OptProp;

impl Property for OptProp {
    type Case = SolveCase;
    fn id(&self) -> &'static str {
        "C04"
    }
    fn rule(&self) -> String {
        "generated model x configuration x {SAT-UNSAT, UNSAT-SAT} x {minimise, maximise} x objective (variable, literal as integer, or view with scale in {-2,-1,1,2} and offset); Optimal(s) must be a reference solution with the reference optimum, Unsatisfiable iff the reference set is empty, every callback solution must be a reference solution and (SAT-UNSAT) strictly improving. Non-trivial: >=3 distinct objective values among the reference solutions and the first callback solution was not optimal; distinct by hash of (model, objective, direction, procedure).".into()
    }
    fn strategy(&self, tier: Tier) -> BoxedStrategy<SolveCase> {
        let mut p = GenParams::standard();
        p.min_cons = 1;
        if tier == Tier::Thorough {
            p.max_vars = 8;
            p.space_limit = 40_000;
        }
        solve_case_strategy(&p, &[3, 4])
    }
    fn cases(&self, tier: Tier) -> u64 {
        match tier {
            Tier::Quick => 3_000_000,
            Tier::Thorough => 30_000_000,
        }
    }
    fn floors(&self, _tier: Tier) -> Vec<(&'static str, f64)> {
        vec![("opt:improved", 0.08), ("obj:view", 0.2), ("dir:max", 0.3), ("path:4", 0.3)]
    }
    fn feature(&self, case: &SolveCase, name: &str) -> bool {
        match name {
            "no_learning_with_assumptions" => case.cfg.no_learning && (case.path == 2 || case.path == 4),
            _ => crate::props::features::model_feature(&case.model, name),
        }
    }
    fn run(&self, case: &SolveCase) -> Verdict {
        if let Some(w) = &case.witness {
            // long-chain models (too large to enumerate): the reported optimum must be at least as good as the
            // planted solution, and it must be a solution
            let m = &case.model;
            let mut out = Outcome::default();
            out.classes.push("large_planted".into());
            let mut b = Built::from_model(m, &case.cfg, None);
            if b.infeasible_at_post() {
                return Err(Failure::new("wrong:post-error-but-satisfiable", "posting a constraint of the long-chain model failed although the planted assignment satisfies the model"));
            }
            let mut br = b.brancher(&case.cfg.brancher);
            let mut t = CountingTermination::budget(BUDGET);
            let lsu = m.struct_hash() % 2 == 0;
            let (r, _) = optimise(&mut b, &mut br, &mut t, lsu, case.maximise, &case.objective);
            let val = |a: &[i32]| sem::tv(&case.objective, a);
            match r {
                OptRes::Optimal(a) => {
                    if let Some(why) = sem::first_violation(m, &a) {
                        return Err(Failure::new("wrong:optimal-not-a-solution", format!("Optimal solution of the long-chain model: {}", why)));
                    }
                    let worse = if case.maximise { val(&a) < val(w) } else { val(&a) > val(w) };
                    if worse {
                        return Err(Failure::new(
                            "wrong:not-optimal",
                            format!("Optimal with objective {} on the long-chain model but the planted solution has objective {} (maximise: {}, lsu: {lsu})", val(&a), val(w), case.maximise),
                        ));
                    }
                }
                OptRes::Unsat => return Err(Failure::new("wrong:unsat-but-sat", "Unsatisfiable but the planted assignment satisfies the long-chain model")),
                _ => out.inconclusive = true,
            }
            // linear UNSAT-SAT only adds clauses which the model implies: afterwards everything that is fixed at the
            // root holds in every solution, in particular in the planted one
            if !lsu && !out.inconclusive {
                for (v, d) in b.doms.iter().enumerate() {
                    let (lb, ub) = (b.solver.lower_bound(d), b.solver.upper_bound(d));
                    if w[v] < lb || w[v] > ub {
                        return Err(Failure::new(
                            "wrong:root-bounds-exclude-planted-solution",
                            format!("after linear UNSAT-SAT optimisation variable {v} of the long-chain model has root bounds [{lb}, {ub}] but the planted solution has the value {}", w[v]),
                        ));
                    }
                }
            }
            if br.stats.conflicts > 0 {
                out.classes.push("large_planted:had_conflict".into());
            }
            return Ok(out);
        }
        let m = &case.model;
        let mut out = Outcome::default();
        model_classes(m, &mut out.classes);
        config_classes(&case.cfg, &mut out.classes);
        out.classes.push(format!("path:{}", case.path));
        out.classes.push(if case.maximise { "dir:max" } else { "dir:min" }.into());
        if !case.objective.is_plain() {
            out.classes.push("obj:view".into());
        }
        if m.vars[case.objective.var].is_boolean() {
            out.classes.push("obj:literal".into());
        }
        let sols = sem::solutions(m, 5_000_000).expect("harness: enumeration limit");
        let val = |a: &[i32]| sem::tv(&case.objective, a);
        let better = |x: i128, y: i128| if case.maximise { x > y } else { x < y };
        let best = sols.iter().map(|s| val(s)).fold(None, |acc: Option<i128>, v| Some(acc.map_or(v, |x| if better(v, x) { v } else { x })));
        let mut distinct: Vec<i128> = sols.iter().map(|s| val(s)).collect();
        distinct.sort();
        distinct.dedup();

        let mut b = Built::from_model(m, &case.cfg, None);
        if b.infeasible_at_post() {
            let i = b.post_ok.iter().position(|x| !x).unwrap();
            let prefix = Model { vars: m.vars.clone(), cons: m.cons[..=i].to_vec() };
            if !sem::solutions(&prefix, 5_000_000).unwrap().is_empty() {
                return Err(Failure::new("wrong:post-error-but-satisfiable", format!("posting constraint #{i} failed on a satisfiable prefix")));
            }
            out.classes.push("post_error".into());
            return Ok(out);
        }
        let mut br = b.brancher(&case.cfg.brancher);
        let mut t = CountingTermination::budget(BUDGET);
        let lsu = case.path == 3;
        let (r, cbs) = optimise(&mut b, &mut br, &mut t, lsu, case.maximise, &case.objective);
        for (i, a) in cbs.iter().enumerate() {
            if let Some(why) = sem::first_violation(m, a) {
                return Err(Failure::new("wrong:callback-not-a-solution", format!("callback solution #{i} {:?}: {}", a, why)));
            }
            if lsu && i > 0 && !better(val(a), val(&cbs[i - 1])) {
                return Err(Failure::new("wrong:callback-not-improving", format!("callback objective values {} then {}", val(&cbs[i - 1]), val(a))));
            }
        }
        match &r {
            OptRes::Optimal(a) => {
                if let Some(why) = sem::first_violation(m, a) {
                    return Err(Failure::new("wrong:optimal-not-a-solution", format!("Optimal({:?}): {}", a, why)));
                }
                if Some(val(a)) != best {
                    return Err(Failure::new("wrong:not-optimal", format!("Optimal({:?}) has objective {} but a solution with objective {:?} exists", a, val(a), best)));
                }
                if cbs.last() != Some(a) {
                    return Err(Failure::new("wrong:optimal-not-last-callback", format!("Optimal({:?}) differs from the last callback solution {:?}", a, cbs.last())));
                }
            }
            OptRes::Unsat => {
                if !sols.is_empty() {
                    return Err(Failure::new("wrong:unsat-but-sat", format!("Unsatisfiable but {} solutions exist", sols.len())));
                }
            }
            OptRes::Satisfiable(_) | OptRes::Unknown => {
                if t.exhausted {
                    out.inconclusive = true;
                } else {
                    return Err(Failure::new("wrong:unknown-without-stop", format!("optimise returned {:?} although the termination never fired", r)));
                }
            }
        }
        if sols.is_empty() && !matches!(r, OptRes::Unsat) && !out.inconclusive {
            return Err(Failure::new("wrong:optimal-but-unsat", format!("{:?} but the model has no solution", r)));
        }
        // A second optimisation on the same solver: linear UNSAT-SAT only adds clauses which the model
        // implies (the refuted lower bounds), so afterwards the solver still stands for the same model and an
        // optimisation in the opposite direction with the other procedure has to find the other extreme.
        if !lsu && matches!(r, OptRes::Optimal(_)) && !out.inconclusive {
            out.classes.push("second_call_after_lus".into());
            let worst = sols.iter().map(|s| val(s)).fold(None, |acc: Option<i128>, v| Some(acc.map_or(v, |x| if better(v, x) { x } else { v })));
            let mut br2 = b.brancher(&case.cfg.brancher);
            let mut t2 = CountingTermination::budget(BUDGET);
            let (r2, cbs2) = optimise(&mut b, &mut br2, &mut t2, true, !case.maximise, &case.objective);
            for (i, a) in cbs2.iter().enumerate() {
                if let Some(why) = sem::first_violation(m, a) {
                    return Err(Failure::new("wrong:second-call:callback-not-a-solution", format!("callback solution #{i} {:?} of the second optimisation: {}", a, why)));
                }
            }
            match &r2 {
                OptRes::Optimal(a) => {
                    if let Some(why) = sem::first_violation(m, a) {
                        return Err(Failure::new("wrong:second-call:optimal-not-a-solution", format!("second optimisation Optimal({:?}): {}", a, why)));
                    }
                    if Some(val(a)) != worst {
                        return Err(Failure::new(
                            "wrong:second-call:not-optimal",
                            format!("after a linear UNSAT-SAT run, optimising in the opposite direction (maximise: {}) returned Optimal({:?}) with objective {} but the optimum is {:?}", !case.maximise, a, val(a), worst),
                        ));
                    }
                }
                OptRes::Unsat => return Err(Failure::new("wrong:second-call:unsat-but-sat", format!("the second optimisation reports Unsatisfiable but {} solutions exist", sols.len()))),
                OptRes::Satisfiable(_) | OptRes::Unknown => {
                    if t2.exhausted {
                        out.inconclusive = true;
                    } else {
                        return Err(Failure::new("wrong:second-call:unknown-without-stop", format!("the second optimisation returned {:?} although the termination never fired", r2)));
                    }
                }
            }
        }
        let improved = cbs.len() >= 2 || (!cbs.is_empty() && Some(val(&cbs[0])) != best);
        if improved {
            out.classes.push("opt:improved".into());
        }
        if br.stats.decisions == 0 {
            out.classes.push("opt:root_only".into());
        }
        if distinct.len() >= 3 && !cbs.is_empty() && Some(val(&cbs[0])) != best {
            out.nontrivial = Some(hash_of(&(m, case.objective, case.maximise, case.path)));
        }
        out.observed = Some(json!({"result": format!("{:?}", r), "callbacks": cbs.len(), "reference_optimum": best.map(|b| b as i64), "distinct_objective_values": distinct.len()}));
        Ok(out)
    }
}

// ------------------------------------------------------------------------------------------
// C05

#[derive(Clone, Debug, Serialize, Deserialize)]
pub struct AssumpCase {
    pub model: Model,
    pub cfg: Config,
    /// each step: (assumptions, extract core?) ; an empty-marker step `None` is a plain satisfy
    pub steps: Vec<Option<(Vec<Pred>, bool)>>,
}

pub struct AssumpProp;

/// is `p` implied by the conjunction of `assumptions` over the declared domain of its variable
fn implied_by(m: &Model, assumptions: &[Pred], p: &Pred) -> bool {
    m.vars[p.var].values().iter().all(|v| {
        let sat_all = assumptions.iter().filter(|a| a.var == p.var).all(|a| a.holds(*v as i64));
        !sat_all || p.holds(*v as i64)
    })
}

pub fn has_contradictory_pair(m: &Model, assumptions: &[Pred]) -> bool {
    for (i, a) in assumptions.iter().enumerate() {
        for b in &assumptions[i + 1..] {
            if a.var == b.var {
                // no integer at all satisfies both (independent of the domain): the API documents a
                // dedicated report for this
                let lo = m.vars[a.var].lb() as i64 - 3;
                let hi = m.vars[a.var].ub() as i64 + 3;
                let vals = [a.val as i64, b.val as i64, a.val as i64 - 1, a.val as i64 + 1, b.val as i64 - 1, b.val as i64 + 1, lo, hi];
                if !vals.iter().any(|v| a.holds(*v) && b.holds(*v)) {
                    return true;
                }
            }
        }
    }
    false
}

/// the list contains a predicate together with its exact negation ("x, not-x")
pub fn has_negation_pair(assumptions: &[Pred]) -> bool {
    assumptions.iter().any(|a| {
        let n = a.negated();
        assumptions.iter().any(|b| b.var == n.var && b.kind == n.kind && b.val == n.val)
    })
}

impl Property for AssumpProp {
    type Case = AssumpCase;
    fn id(&self) -> &'static str {
        "C05"
    }
    fn rule(&self) -> String {
        "generated model x configuration x a sequence of 1-4 solves on one solver, each either a plain satisfy or satisfy_under_assumptions with 0-5 assumptions of all four predicate kinds (values from lb-1..ub+1: already true/false at the root, duplicates, implied, contradictory pairs, any order) with or without core extraction. Oracle: exhaustive S and S_A; a solution must lie in S_A; UnsatisfiableUnderAssumptions requires S_A empty, every core predicate implied by the assumptions over the declared domain and no solution of the model satisfying the whole core; the 'conflicting assumptions' report is accepted only when a pair without common value exists, and it is required (instead of a core) when the list contains a predicate together with its exact negation; later solves answer for the original model. Non-trivial: S non-empty, S_A empty, >=2 assumptions and the core is a strict subset of (or differs from) the assumptions; distinct by hash of (model, steps).".into()
    }
    fn strategy(&self, tier: Tier) -> BoxedStrategy<AssumpCase> {
        let mut p = GenParams::standard();
        p.min_cons = 1;
        if tier == Tier::Thorough {
            p.space_limit = 20_000;
            p.max_vars = 7;
        }
        let pp = p.clone();
        (
            raw_model_strategy(&p),
            raw_config_strategy(),
            proptest::collection::vec((any::<u8>(), proptest::collection::vec((any::<u16>(), any::<u8>(), any::<u16>()), 0..=5)), 1..=4),
        )
            .prop_map(move |((rv, rc), rcfg, rsteps)| {
                let model = build_model(&pp, &rv, &rc);
                let mut cfg = build_config(&rcfg);
                // known finding KF-no-learning-assumptions: excluded by construction
                if cfg.no_learning {
                    cfg.no_learning = false;
                    EXCLUDED_NOLEARN_ASSUMPTIONS.fetch_add(1, std::sync::atomic::Ordering::Relaxed);
                }
                let steps = rsteps
                    .iter()
                    .map(|(k, ra)| if k % 5 == 0 { None } else { Some((build_assumptions(&model, ra), k % 5 != 1)) })
                    .collect();
                AssumpCase { model, cfg, steps }
            })
            .boxed()
    }
    fn cases(&self, tier: Tier) -> u64 {
        match tier {
            Tier::Quick => 2_400_000,
            Tier::Thorough => 24_000_000,
        }
    }
    fn floors(&self, _tier: Tier) -> Vec<(&'static str, f64)> {
        vec![("core:checked", 0.1), ("core:strict_subset", 0.03), ("multi_step", 0.4)]
    }
    fn feature(&self, case: &AssumpCase, name: &str) -> bool {
        crate::props::features::model_feature(&case.model, name)
    }
    fn run(&self, case: &AssumpCase) -> Verdict {
        let m = &case.model;
        let mut out = Outcome::default();
        model_classes(m, &mut out.classes);
        config_classes(&case.cfg, &mut out.classes);
        let sols = sem::solutions(m, 5_000_000).expect("harness: enumeration limit");
        let mut b = Built::from_model(m, &case.cfg, None);
        if b.infeasible_at_post() {
            out.classes.push("post_error".into());
            if !sols.is_empty() {
                let i = b.post_ok.iter().position(|x| !x).unwrap();
                let prefix = Model { vars: m.vars.clone(), cons: m.cons[..=i].to_vec() };
                if !sem::solutions(&prefix, 5_000_000).unwrap().is_empty() {
                    return Err(Failure::new("wrong:post-error-but-satisfiable", format!("posting constraint #{i} failed on a satisfiable prefix")));
                }
            }
            return Ok(out);
        }
        if case.steps.len() > 1 {
            out.classes.push("multi_step".into());
        }
        let mut nontrivial = false;
        let mut observed = vec![];
        for (si, step) in case.steps.iter().enumerate() {
            // a fresh brancher per solve (always valid)
            let mut br = b.brancher(&case.cfg.brancher);
            let mut t = CountingTermination::budget(BUDGET);
            match step {
                None => {
                    let r = satisfy(&mut b, &mut br, &mut t);
                    observed.push(format!("satisfy -> {:?}", r));
                    match r {
                        SatRes::Sat(a) => {
                            if let Some(why) = sem::first_violation(m, &a) {
                                return Err(Failure::new("wrong:stale-or-invalid-solution", format!("step {si}: satisfy returned {:?}: {}", a, why)));
                            }
                        }
                        SatRes::Unsat => {
                            if !sols.is_empty() {
                                return Err(Failure::new("wrong:unsat-after-assumptions", format!("step {si}: plain satisfy reports Unsatisfiable but the model has {} solutions (assumptions retained?)", sols.len())));
                            }
                        }
                        SatRes::Unknown => {
                            if t.exhausted {
                                out.inconclusive = true;
                                return Ok(out);
                            }
                            return Err(Failure::new("wrong:unknown-without-stop", format!("step {si}: Unknown")));
                        }
                    }
                }
                Some((assumptions, extract)) => {
                    let s_a: Vec<&Vec<i32>> = sols.iter().filter(|s| assumptions.iter().all(|p| p.holds(s[p.var] as i64))).collect();
                    let r = satisfy_under_assumptions(&mut b, &mut br, &mut t, assumptions, *extract);
                    observed.push(format!("assume {:?} -> {:?}", assumptions, r));
                    match r {
                        AssRes::Sat(a) => {
                            if let Some(why) = sem::first_violation(m, &a) {
                                return Err(Failure::new("wrong:invalid-solution", format!("step {si}: {:?}: {}", a, why)));
                            }
                            if let Some(p) = assumptions.iter().find(|p| !p.holds(a[p.var] as i64)) {
                                return Err(Failure::new("wrong:assumption-violated", format!("step {si}: solution {:?} violates assumption {:?}", a, p)));
                            }
                        }
                        AssRes::UnsatUnderAssumptions(core) => {
                            if !s_a.is_empty() {
                                return Err(Failure::new("wrong:unsat-under-assumptions-but-sat", format!("step {si}: assumptions {:?} are satisfiable, e.g. {:?}", assumptions, s_a[0])));
                            }
                            match core {
                                CoreRes::NotExtracted => {}
                                CoreRes::Foreign(p) => return Err(Failure::new("wrong:core-foreign-predicate", format!("step {si}: core contains {p}"))),
                                CoreRes::ConflictingAssumptions(msg) => {
                                    out.classes.push("core:conflicting_report".into());
                                    if has_negation_pair(assumptions) {
                                        out.classes.push("core:negation_pair_reported".into());
                                    }
                                    if !has_contradictory_pair(m, assumptions) {
                                        return Err(Failure::new("wrong:conflicting-assumptions-report", format!("step {si}: '{msg}' but no two assumptions of {:?} exclude each other", assumptions)));
                                    }
                                }
                                CoreRes::Core(core) => {
                                    out.classes.push("core:checked".into());
                                    // the other direction of the documented report: x together with not-x
                                    // is reported as such, not answered with a core
                                    if has_negation_pair(assumptions) {
                                        return Err(Failure::new("wrong:contradictory-pair-not-reported", format!("step {si}: the assumptions {:?} contain a predicate and its negation, but a core {:?} was returned instead of the conflicting-assumptions report", assumptions, core)));
                                    }
                                    for p in &core {
                                        if !implied_by(m, assumptions, p) {
                                            // weaker: the values which the assumptions allow but the core
                                            // predicate excludes are not taken by any solution of the model
                                            let model_implied = m.vars[p.var].values().iter().all(|v| {
                                                let allowed = assumptions.iter().filter(|a| a.var == p.var).all(|a| a.holds(*v as i64));
                                                !allowed || p.holds(*v as i64) || !sols.iter().any(|s| s[p.var] == *v)
                                            });
                                            let sig = if model_implied { "wrong:core-pred-only-implied-with-model" } else { "wrong:core-not-implied-by-assumptions" };
                                            return Err(Failure::new(sig, format!("step {si}: core predicate {:?} of core {:?} is not implied by the assumptions {:?}", p, core, assumptions)));
                                        }
                                    }
                                    if let Some(s) = sols.iter().find(|s| core.iter().all(|p| p.holds(s[p.var] as i64))) {
                                        return Err(Failure::new("wrong:core-not-inconsistent", format!("step {si}: solution {:?} satisfies the whole core {:?} (assumptions {:?})", s, core, assumptions)));
                                    }
                                    let mut dedup = assumptions.clone();
                                    dedup.sort_by_key(|p| (p.var, p.val, p.kind as u8));
                                    dedup.dedup();
                                    let strict = core.len() < dedup.len() || core.iter().any(|p| !assumptions.contains(p));
                                    if strict {
                                        out.classes.push("core:strict_subset".into());
                                    }
                                    if !sols.is_empty() && assumptions.len() >= 2 && strict {
                                        nontrivial = true;
                                    }
                                }
                            }
                        }
                        AssRes::Unsat => {
                            if !sols.is_empty() {
                                return Err(Failure::new("wrong:unsat-but-sat", format!("step {si}: Unsatisfiable but the model has {} solutions", sols.len())));
                            }
                        }
                        AssRes::Unknown => {
                            if t.exhausted {
                                out.inconclusive = true;
                                return Ok(out);
                            }
                            return Err(Failure::new("wrong:unknown-without-stop", format!("step {si}: Unknown")));
                        }
                    }
                }
            }
        }
        if nontrivial {
            out.nontrivial = Some(hash_of(&(m, &case.steps)));
        }
        out.observed = Some(json!(observed));
        Ok(out)
    }
}

// ------------------------------------------------------------------------------------------
// C12

#[derive(Clone, Debug, Serialize, Deserialize)]
pub struct BoundsCase {
    pub model: Model,
    pub cfg: Config,
    /// views whose bounds are queried in addition to every variable
    pub views: Vec<Term>,
}

pub struct BoundsProp;

impl Property for BoundsProp {
    type Case = BoundsCase;
    fn id(&self) -> &'static str {
        "C12"
    }
    fn panics_are_violations(&self) -> bool {
        false
    }
    fn rule(&self) -> String {
        "generated model posted constraint by constraint; after every prefix lower_bound/upper_bound of every variable and of generated views (scale -3..3 \\ {0}, offset -5..5) and get_literal_value of every literal are compared with the exhaustive solution set of the prefix: the bounds must enclose every solution value, stay within the declared domain, and only tighten. Non-trivial: some prefix with a non-empty solution set tightened a bound; distinct by model hash.".into()
    }
    fn strategy(&self, tier: Tier) -> BoxedStrategy<BoundsCase> {
        let mut p = GenParams::standard();
        p.min_cons = 1;
        p.plant_permille = 900;
        if tier == Tier::Thorough {
            p.space_limit = 30_000;
            p.max_vars = 7;
        }
        let pp = p.clone();
        (raw_model_strategy(&p), raw_config_strategy(), proptest::collection::vec((any::<u16>(), -3i32..=3, -5i32..=5), 0..=4))
            .prop_map(move |((rv, rc), rcfg, rviews)| {
                let model = build_model(&pp, &rv, &rc);
                let cfg = build_config(&rcfg);
                let views = rviews
                    .iter()
                    .map(|(v, s, o)| Term { var: pick(*v, model.vars.len()), scale: if *s == 0 { -1 } else { *s }, offset: *o })
                    .collect();
                BoundsCase { model, cfg, views }
            })
            .boxed()
    }
    fn cases(&self, tier: Tier) -> u64 {
        match tier {
            Tier::Quick => 3_000_000,
            Tier::Thorough => 30_000_000,
        }
    }
    fn floors(&self, _tier: Tier) -> Vec<(&'static str, f64)> {
        vec![("tightened_with_solutions", 0.3)]
    }
    fn feature(&self, case: &BoundsCase, name: &str) -> bool {
        crate::props::features::model_feature(&case.model, name)
    }
    fn run(&self, case: &BoundsCase) -> Verdict {
        let m = &case.model;
        let mut out = Outcome::default();
        model_classes(m, &mut out.classes);
        let mut b = Built::new(&case.cfg, None);
        for v in &m.vars {
            b.add_var(v);
        }
        let n = m.vars.len();
        let mut prev: Vec<(i32, i32)> = m.vars.iter().map(|d| (d.lb(), d.ub())).collect();
        let mut tightened = false;
        for k in 0..=m.cons.len() {
            if k > 0 {
                let ok = b.post(&m.cons[k - 1], k - 1);
                if !ok {
                    // infeasibility reported: judged by C02; bounds are unspecified afterwards
                    out.classes.push("post_error".into());
                    break;
                }
            }
            let prefix = Model { vars: m.vars.clone(), cons: m.cons[..k].to_vec() };
            let sols = sem::solutions(&prefix, 5_000_000).expect("harness: enumeration limit");
            // A solve (possibly interrupted after a few polls, possibly under an assumption) between two postings
            // must leave the root bounds untouched by anything but root-level inference: the solver is back at
            // the root when the call returns, whatever the result.
            let h = m.struct_hash().wrapping_add(k as u64 * 0x9E37);
            if k > 0 && n > 0 && h % 3 != 0 {
                let mut br = b.brancher(&case.cfg.brancher);
                let mut t = CountingTermination::stop_at(1 + (h >> 8) % 5, BUDGET);
                let infeasible = if h % 3 == 1 || case.cfg.no_learning {
                    out.classes.push("probe:interrupted_satisfy".into());
                    matches!(satisfy(&mut b, &mut br, &mut t), SatRes::Unsat)
                } else {
                    out.classes.push("probe:interrupted_assumption_solve".into());
                    let var = (h >> 16) as usize % n;
                    let d = &m.vars[var];
                    let val = d.lb() + ((h >> 24) % (d.size().max(1))) as i32;
                    let assumption = Pred { var, kind: if (h >> 5) % 2 == 0 { PKind::Ge } else { PKind::Le }, val };
                    matches!(satisfy_under_assumptions(&mut b, &mut br, &mut t, &[assumption], false), AssRes::Unsat)
                };
                if infeasible {
                    if !sols.is_empty() {
                        return Err(Failure::new("wrong:unsat-but-sat", format!("a solve after {k} constraints reports Unsatisfiable but the prefix has {} solutions", sols.len())));
                    }
                    out.classes.push("probe:unsat".into());
                    break;
                }
            }
            for i in 0..n {
                let lb = b.solver.lower_bound(&b.doms[i]);
                let ub = b.solver.upper_bound(&b.doms[i]);
                let d = &m.vars[i];
                if lb < d.lb() || ub > d.ub() || lb > ub {
                    return Err(Failure::new("wrong:bounds-outside-declared-domain", format!("after {k} constraints variable {i} has bounds [{lb}, {ub}] but was declared {:?}", d)));
                }
                if lb < prev[i].0 || ub > prev[i].1 {
                    return Err(Failure::new("wrong:bounds-not-monotone", format!("after {k} constraints variable {i} has bounds [{lb}, {ub}], before [{}, {}]", prev[i].0, prev[i].1)));
                }
                if (lb, ub) != prev[i] && !sols.is_empty() {
                    tightened = true;
                }
                prev[i] = (lb, ub);
                if let Some(s) = sols.iter().find(|s| s[i] < lb || s[i] > ub) {
                    return Err(Failure::new("wrong:bound-excludes-solution", format!("after {k} constraints variable {i} has bounds [{lb}, {ub}] but {:?} is a solution", s)));
                }
                if let Some(l) = b.lits[i] {
                    for (lit, neg) in [(l, false), (!l, true)] {
                        if let Some(v) = b.solver.get_literal_value(lit) {
                            if let Some(s) = sols.iter().find(|s| ((s[i] != 0) != neg) != v) {
                                return Err(Failure::new("wrong:literal-value-excludes-solution", format!("after {k} constraints literal {i} (negated: {neg}) is reported {v} but {:?} is a solution", s)));
                            }
                        }
                    }
                }
            }
            for t in &case.views {
                let view = b.term(t);
                let lb = b.solver.lower_bound(&view) as i128;
                let ub = b.solver.upper_bound(&view) as i128;
                if let Some(s) = sols.iter().find(|s| sem::tv(t, s) < lb || sem::tv(t, s) > ub) {
                    return Err(Failure::new("wrong:view-bound-excludes-solution", format!("after {k} constraints view {:?} has bounds [{lb}, {ub}] but {:?} is a solution (value {})", t, s, sem::tv(t, s))));
                }
                // the bounds of a view are the images of the bounds of the variable
                let (vlb, vub) = (b.solver.lower_bound(&b.doms[t.var]) as i128, b.solver.upper_bound(&b.doms[t.var]) as i128);
                let (x, y) = (t.scale as i128 * vlb + t.offset as i128, t.scale as i128 * vub + t.offset as i128);
                if lb != x.min(y) || ub != x.max(y) {
                    return Err(Failure::new("wrong:view-bounds-inconsistent", format!("view {:?} has bounds [{lb}, {ub}] but its variable has [{vlb}, {vub}]", t)));
                }
            }
        }
        if tightened {
            out.classes.push("tightened_with_solutions".into());
            out.nontrivial = Some(m.struct_hash());
        }
        if !case.views.is_empty() {
            out.classes.push("has_query_views".into());
        }
        Ok(out)
    }
}
