//! Named structural features of cases, used by known-finding matchers.
use crate::ir::*;

fn terms_of(c: &Cons) -> Vec<Term> {
    match c {
        Cons::LinLe { terms, .. } | Cons::LinEq { terms, .. } | Cons::LinNe { terms, .. } => terms.clone(),
        Cons::BinEq { a, b } | Cons::BinNe { a, b } | Cons::BinLe { a, b } | Cons::BinLt { a, b } => vec![*a, *b],
        Cons::Plus { a, b, c } | Cons::Times { a, b, c } => vec![*a, *b, *c],
        Cons::Div { n, d, r } => vec![*n, *d, *r],
        Cons::Abs { x, y } => vec![*x, *y],
        Cons::Max { xs, m } | Cons::Min { xs, m } => xs.iter().copied().chain(std::iter::once(*m)).collect(),
        Cons::Element { idx, array, rhs } => array.iter().copied().chain([*idx, *rhs]).collect(),
        Cons::AllDiff { xs } => xs.clone(),
        Cons::Cumulative { starts, .. } => starts.clone(),
        _ => vec![],
    }
}

pub fn model_feature(m: &Model, name: &str) -> bool {
    if let Some(kind) = name.strip_prefix("has_kind:") {
        return m.cons.iter().any(|p| p.cons.kind() == kind);
    }
    match name {
        "zero_scale_view" => m.cons.iter().any(|p| {
            terms_of(&p.cons).iter().any(|t| t.scale == 0)
                || match &p.cons {
                    Cons::BoolLinLe { ws, .. } | Cons::BoolLinEq { ws, .. } => ws.iter().any(|w| *w == 0),
                    _ => false,
                }
        }),
        "cumulative_overcap_task" => m.cons.iter().any(|p| match &p.cons {
            Cons::Cumulative { durs, uses, cap, .. } => durs.iter().zip(uses).any(|(d, u)| *d > 0 && u > cap),
            _ => false,
        }),
        "half_reified_element" => m
            .cons
            .iter()
            .any(|p| matches!(p.cons, Cons::Element { .. }) && matches!(p.mode, Mode::ImpliedBy(_))),
        "half_reified_incremental_cumulative" => m.cons.iter().any(|p| match &p.cons {
            Cons::Cumulative { opts, .. } => !matches!(p.mode, Mode::Post) && matches!(opts.method, 1 | 2 | 4 | 5),
            _ => false,
        }),
        "has_reification" => m.cons.iter().any(|p| !matches!(p.mode, Mode::Post)),
        _ => false,
    }
}
