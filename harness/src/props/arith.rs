//! C16: constraint arithmetic is exact over the whole admitted integer range.
use proptest::prelude::*;
use serde::{Deserialize, Serialize};
use serde_json::json;

use crate::adapter::*;
use crate::ir::*;
use crate::ops::*;
use crate::props::iter::{compare_sets, iterate_all};
use crate::runner::*;
use crate::sem;

#[derive(Clone, Debug, Serialize, Deserialize, Hash)]
pub struct ArithCase {
    pub model: Model,
    /// 0: small domains at large magnitude (full enumeration); 1: huge spans with a planted witness
    pub regime: u8,
    /// regime 0: 0 iterate, 1 minimise / 2 maximise the objective with SAT-UNSAT, 3/4 with UNSAT-SAT
    pub path: u8,
    pub objective: Term,
    pub witness: Vec<i32>,
}

pub struct ArithProp;

const BASES: [i64; 14] = [0, 1, -1, 46340, -46341, 65536, -65536, 1 << 30, -(1 << 30), i32::MAX as i64, i32::MIN as i64, (1 << 31) - 5, -(1 << 31) + 4, 1_000_000_007];

fn fits(v: i128) -> bool {
    v >= i32::MIN as i128 && v <= i32::MAX as i128
}


fn wv(t: &Term, w: &[i32]) -> i128 {
    t.scale as i128 * w[t.var] as i128 + t.offset as i128
}

fn view_range(t: &Term, vars: &[VarDecl]) -> (i128, i128) {
    let (lb, ub) = (vars[t.var].lb() as i128, vars[t.var].ub() as i128);
    let (x, y) = (t.scale as i128 * lb + t.offset as i128, t.scale as i128 * ub + t.offset as i128);
    (x.min(y), x.max(y))
}

/// a view is an admitted input only if all of its values are 32-bit integers (it is a variable)
fn view_fits(t: &Term, vars: &[VarDecl]) -> bool {
    let (lo, hi) = view_range(t, vars);
    fits(lo) && fits(hi) && fits(t.scale as i128 * vars[t.var].lb() as i128) && fits(t.scale as i128 * vars[t.var].ub() as i128)
}

/// a view over one of the first `n` variables; falls back to smaller coefficients until it is admitted
fn view(g: &mut G, vars: &[VarDecl], n: usize, plain: bool) -> Term {
    // variables are distinct within one constraint (the caller drops a constraint which repeats one)
    let var = g.take(n);
    if plain && g.coin(700) {
        return Term::plain(var);
    }
    if !plain && g.coin(500) {
        // the largest coefficient for which the view is still admitted: each term sits close to the limits
        let sign = if g.coin(400) { -1 } else { 1 };
        let (lb, ub) = (vars[var].lb() as i128, vars[var].ub() as i128);
        let bound = lb.abs().max(ub.abs()).max(1);
        let largest = ((i32::MAX as i128) / bound).max(1) as i32;
        let t = Term { var, scale: sign * largest, offset: 0 };
        if view_fits(&t, vars) {
            return t;
        }
    }
    let scale = g.coef();
    let offset = if g.coin(300) { g.coef() } else { 0 };
    for t in [Term { var, scale, offset }, Term { var, scale, offset: 0 }, Term { var, scale: scale.signum() * 2, offset }, Term { var, scale: scale.signum(), offset }, Term { var, scale: scale.signum(), offset: 0 }] {
        if view_fits(&t, vars) {
            return t;
        }
    }
    Term::plain(var)
}

/// a term whose value under the witness is `value`: an existing variable shifted by an offset when the
/// shifted view is admitted, else a fresh variable whose domain contains `value`
fn result(g: &mut G, small: bool, vars: &mut Vec<VarDecl>, witness: &mut Vec<i32>, n: usize, value: i128) -> Option<Term> {
    if !fits(value) {
        return None;
    }
    if g.coin(350) && !g.pool.is_empty() {
        let var = g.take(n);
        let off = value - witness[var] as i128;
        if fits(off) {
            let t = Term { var, scale: 1, offset: off as i32 };
            if view_fits(&t, vars) {
                return Some(t);
            }
        }
    }
    let v = value as i64;
    let decl = match if small { 4 } else { g.below(5) } {
        0 => VarDecl::Interval { lb: i32::MIN, ub: i32::MAX },
        1 => VarDecl::Interval { lb: v.min(0) as i32, ub: v.max(0) as i32 },
        _ => {
            let lo = (v - g.below(2) as i64).max(i32::MIN as i64);
            let hi = (v + g.below(2) as i64).min(i32::MAX as i64);
            VarDecl::Interval { lb: lo as i32, ub: hi as i32 }
        }
    };
    vars.push(decl);
    witness.push(value as i32);
    Some(Term::plain(vars.len() - 1))
}

fn find(comp: &mut Vec<usize>, v: usize) -> usize {
    let mut r = v;
    while comp[r] != r {
        r = comp[r];
    }
    comp[v] = r;
    r
}

struct G<'a> {
    r: &'a [u16],
    i: usize,
    /// the variables not yet used by the constraint under construction
    pool: Vec<usize>,
}

impl G<'_> {
    fn u(&mut self) -> u16 {
        let v = self.r[self.i % self.r.len()];
        self.i += 1;
        v
    }
    fn below(&mut self, n: usize) -> usize {
        pick(self.u(), n)
    }
    /// a variable which the constraint under construction does not mention yet (any one once all are used;
    /// the constraint is then dropped)
    fn take(&mut self, n: usize) -> usize {
        if self.pool.is_empty() {
            return self.below(n);
        }
        let i = self.below(self.pool.len());
        self.pool.swap_remove(i)
    }
    fn coin(&mut self, permille: u32) -> bool {
        ((self.u() as u32 * 1000) >> 16) < permille
    }
    /// a magnitude around which a domain is placed: 60% at 2^30 and beyond, 25% around 2^15.5 .. 10^9
    fn base(&mut self) -> i64 {
        const LARGE: [i64; 7] = [1 << 30, -(1 << 30), i32::MAX as i64, i32::MIN as i64, (1 << 31) - 5, -(1 << 31) + 4, 1_500_000_000];
        const MEDIUM: [i64; 6] = [46340, -46341, 65536, -65536, 1_000_000_007, -1_000_000_007];
        const SMALL: [i64; 3] = [0, 1, -1];
        match self.below(20) {
            0..=11 => LARGE[self.below(LARGE.len())],
            12..=16 => MEDIUM[self.below(MEDIUM.len())],
            _ => SMALL[self.below(SMALL.len())],
        }
    }
    fn coef(&mut self) -> i32 {
        let c: i64 = match self.below(8) {
            0 | 1 | 2 => 1,
            3 => 2 + self.below(3) as i64,
            4 => 46341,
            5 => 65536 + self.below(3) as i64,
            6 => (1 << 30) - self.below(2) as i64,
            _ => i32::MAX as i64 - self.below(2) as i64,
        };
        if self.coin(400) {
            -(c as i32)
        } else {
            c as i32
        }
    }
}

fn build(raw: &[u16], regime: u8) -> ArithCase {
    let mut g = G { r: raw, i: 0, pool: vec![] };
    let n = 3 + g.below(3);
    let mut vars = vec![];
    let mut witness = vec![];
    for _ in 0..n {
        let base = g.base();
        let decl = if regime == 1 && g.coin(600) {
            // a huge span
            match g.below(3) {
                0 => VarDecl::Interval { lb: i32::MIN, ub: i32::MAX },
                1 => VarDecl::Interval { lb: 0, ub: i32::MAX },
                _ => VarDecl::Interval { lb: i32::MIN, ub: 0 },
            }
        } else if g.coin(250) {
            // sparse set of <= 4 values near the base (span <= 10^4)
            let k = 1 + g.below(4);
            let mut vals: Vec<i64> = (0..k).map(|_| base + g.below(2000) as i64 - 1000).collect();
            vals.iter_mut().for_each(|v| *v = (*v).clamp(i32::MIN as i64, i32::MAX as i64));
            vals.sort_unstable();
            vals.dedup();
            VarDecl::Sparse { values: vals.into_iter().map(|v| v as i32).collect() }
        } else {
            let size = 1 + g.below(4) as i64;
            let lb = (base - g.below(3) as i64).clamp(i32::MIN as i64, i32::MAX as i64 - size + 1);
            VarDecl::Interval { lb: lb as i32, ub: (lb + size - 1) as i32 }
        };
        let w = match &decl {
            VarDecl::Interval { lb, ub } => {
                let span = *ub as i64 - *lb as i64 + 1;
                if span <= 4 {
                    *lb + g.below(span as usize) as i32
                } else {
                    // a witness near an interesting magnitude inside the span
                    let cand = BASES[g.below(BASES.len())] + g.below(5) as i64 - 2;
                    cand.clamp(*lb as i64, *ub as i64) as i32
                }
            }
            VarDecl::Sparse { values } => values[g.below(values.len())],
            VarDecl::Bool | VarDecl::PredLit { .. } => 0,
        };
        vars.push(decl);
        witness.push(w);
    }
    let n_cons = 1 + g.below(3);
    let mut cons = vec![];
    let mut comp: Vec<usize> = (0..64).collect();
    for _ in 0..n_cons {
        g.pool = (0..n).collect();
        let c = match g.below(9) {
            0..=2 => {
                let k = 1 + g.below(4);
                let mut terms: Vec<Term> = vec![];
                let mut lhs: i128 = 0;
                for _ in 0..k {
                    let mut t = view(&mut g, &vars, n, false);
                    // prefer the sign which keeps the sum under the witness in range: the partial sums
                    // and the sum of the bounds still overflow although the result fits
                    let flipped = Term { var: t.var, scale: t.scale.wrapping_neg(), offset: t.offset.wrapping_neg() };
                    if !fits(lhs + wv(&t, &witness)) && t.scale != i32::MIN && t.offset != i32::MIN && view_fits(&flipped, &vars) && fits(lhs + wv(&flipped, &witness)) {
                        t = flipped;
                    }
                    lhs += wv(&t, &witness);
                    terms.push(t);
                }
                let slack = g.below(3) as i128;
                match g.below(3) {
                    0 if fits(lhs + slack) => Some(Cons::LinLe { terms, rhs: (lhs + slack) as i32 }),
                    1 if fits(lhs) => Some(Cons::LinEq { terms, rhs: lhs as i32 }),
                    2 if fits(lhs + 1 + slack) => Some(Cons::LinNe { terms, rhs: (lhs + 1 + slack) as i32 }),
                    _ => None,
                }
            }
            3 => {
                let plain_a = g.coin(500);
                let (a, b) = match g.below(3) {
                    0 => {
                        // both operands around sqrt(2^31): the product of the witness fits, the product of
                        // the upper bounds does not
                        let op = |g: &mut G, vars: &mut Vec<VarDecl>, witness: &mut Vec<i32>| {
                            let sign = if g.coin(300) { -1 } else { 1 };
                            let lb = sign * 46340 - 3 + g.below(3) as i32;
                            let size = if regime == 0 { 2 + g.below(3) as i32 } else { 1000 + g.below(100_000) as i32 };
                            vars.push(VarDecl::Interval { lb, ub: lb + size });
                            witness.push(lb + g.below(2) as i32);
                            Term::plain(vars.len() - 1)
                        };
                        (op(&mut g, &mut vars, &mut witness), op(&mut g, &mut vars, &mut witness))
                    }
                    1 => {
                        // a large operand times a small one
                        let a = view(&mut g, &vars, n, plain_a);
                        let lb = -2 + g.below(2) as i32;
                        let ub = lb + 2 + g.below(2) as i32;
                        vars.push(VarDecl::Interval { lb, ub });
                        witness.push([-1, 0, 1][g.below(3)].clamp(lb, ub));
                        (a, Term::plain(vars.len() - 1))
                    }
                    _ => (view(&mut g, &vars, n, plain_a), view(&mut g, &vars, n, true)),
                };
                let prod = wv(&a, &witness) * wv(&b, &witness);
                result(&mut g, regime == 0, &mut vars, &mut witness, n, prod).map(|c| Cons::Times { a, b, c })
            }
            4 => {
                let (nn, d) = (view(&mut g, &vars, n, true), view(&mut g, &vars, n, true));
                // documented precondition: 0 is not in the domain of the denominator
                let (lo, hi) = view_range(&d, &vars);
                let dom_has_zero = (lo <= 0 && hi >= 0) || wv(&d, &witness) == 0;
                if dom_has_zero {
                    None
                } else {
                    let q = wv(&nn, &witness) / wv(&d, &witness);
                    result(&mut g, regime == 0, &mut vars, &mut witness, n, q).map(|r| Cons::Div { n: nn, d, r })
                }
            }
            5 => {
                let x = view(&mut g, &vars, n, true);
                let v = wv(&x, &witness).abs();
                result(&mut g, regime == 0, &mut vars, &mut witness, n, v).map(|y| Cons::Abs { x, y })
            }
            6 => {
                let k = 1 + g.below(3);
                let xs: Vec<Term> = (0..k).map(|_| view(&mut g, &vars, n, true)).collect();
                let is_max = g.coin(500);
                let target = if is_max { xs.iter().map(|t| wv(t, &witness)).max().unwrap() } else { xs.iter().map(|t| wv(t, &witness)).min().unwrap() };
                result(&mut g, regime == 0, &mut vars, &mut witness, n, target).map(|m| if is_max { Cons::Max { xs, m } } else { Cons::Min { xs, m } })
            }
            7 => {
                let k = 1 + g.below(3);
                let array: Vec<Term> = (0..k).map(|_| view(&mut g, &vars, n, true)).collect();
                let want = g.below(k);
                let value = wv(&array[want], &witness);
                match (result(&mut g, regime == 0, &mut vars, &mut witness, n, want as i128), result(&mut g, regime == 0, &mut vars, &mut witness, n, value)) {
                    (Some(idx), Some(rhs)) => Some(Cons::Element { idx, array, rhs }),
                    _ => None,
                }
            }
            _ => {
                let (a, b) = (view(&mut g, &vars, n, false), view(&mut g, &vars, n, false));
                let (x, y) = (wv(&a, &witness), wv(&b, &witness));
                Some(if x <= y { Cons::BinLe { a, b } } else { Cons::BinLe { a: b, b: a } })
            }
        };
        if let Some(c) = c {
            // two huge-span factors make bounds propagation of a product converge harmonically (tens of
            // thousands of unit-ish steps, each explained by a linear scan of the trail): a performance
            // pathology, not an arithmetic question
            let is_huge = |t: &Term| vars[t.var].size() > 100_000;
            match &c {
                Cons::Times { a, b, .. } if is_huge(a) && is_huge(b) => continue,
                Cons::Div { d, r, .. } if is_huge(d) && is_huge(r) => continue,
                _ => {}
            }
            let mut mentioned = c.vars_multi();
            let total = mentioned.len();
            mentioned.sort_unstable();
            mentioned.dedup();
            if mentioned.len() != total {
                // a variable occurs twice in the constraint: excluded here as in the other campaigns
                // (x - x <= c tightens one unit per propagation over a span of 2^32)
                continue;
            }
            // the huge-span variables of the constraints form a forest, so that bounds propagation
            // cannot ping-pong one unit at a time between two constraints
            let huge: Vec<usize> = mentioned.iter().copied().filter(|&v| vars[v].size() > 100_000).collect();
            let roots: Vec<usize> = huge.iter().map(|&v| find(&mut comp, v)).collect();
            let mut r = roots.clone();
            r.sort_unstable();
            r.dedup();
            if r.len() != roots.len() {
                continue;
            }
            for w in roots.windows(2) {
                let (a, b) = (find(&mut comp, w[0]), find(&mut comp, w[1]));
                comp[a] = b;
            }
            cons.push(Posted::plain(c));
        }
    }
    let mut objective = Term { var: g.below(n), scale: if g.coin(300) { -1 } else { 1 }, offset: 0 };
    if !view_fits(&objective, &vars) {
        objective.scale = 1;
    }
    let path = if regime == 0 { g.below(5) as u8 } else { 0 };
    ArithCase { model: Model { vars, cons }, regime, path, objective, witness }
}

/// does some intermediate quantity of the mathematical constraint leave the i32 range?
fn overflow_potential(m: &Model) -> bool {
    !overflow_kinds(m).is_empty()
}

/// the kinds of the constraints in which some intermediate quantity leaves the i32 range
fn overflow_kinds(m: &Model) -> Vec<&'static str> {
    let range = |t: &Term| {
        let (lb, ub) = (m.vars[t.var].lb() as i128, m.vars[t.var].ub() as i128);
        let (x, y) = (t.scale as i128 * lb + t.offset as i128, t.scale as i128 * ub + t.offset as i128);
        (x.min(y), x.max(y))
    };
    let hit = |p: &Posted| match &p.cons {
        Cons::LinLe { terms, rhs } | Cons::LinEq { terms, rhs } | Cons::LinNe { terms, rhs } => {
            let lo: i128 = terms.iter().map(|t| range(t).0).sum();
            let hi: i128 = terms.iter().map(|t| range(t).1).sum();
            !fits(lo) || !fits(hi) || !fits(*rhs as i128 - lo) || !fits(*rhs as i128 - hi) || terms.iter().any(|t| !fits(range(t).0) || !fits(range(t).1)) || !fits(-(*rhs as i128) - 1)
        }
        Cons::Times { a, b, c } => {
            let (ra, rb) = (range(a), range(b));
            [ra.0 * rb.0, ra.0 * rb.1, ra.1 * rb.0, ra.1 * rb.1].iter().any(|v| !fits(*v)) || !fits(range(c).0) || !fits(range(c).1)
        }
        Cons::Div { n, d, r } => {
            let (rd, rr) = (range(d), range(r));
            [n, d, r].iter().any(|t| !fits(-range(t).0) || !fits(range(t).1 + 1))
                || [rd.0, rd.1].iter().any(|dv| [rr.0 - 1, rr.0, rr.1, rr.1 + 1].iter().any(|rv| !fits(dv * rv) || !fits(dv * rv - 1) || !fits(dv * rv + 1)))
        }
        Cons::Abs { x, y } => !fits(-range(x).0) || !fits(range(y).1) || !fits(range(y).0),
        Cons::Max { xs, m: t } | Cons::Min { xs, m: t } => xs.iter().chain(std::iter::once(t)).any(|t| !fits(range(t).0) || !fits(range(t).1) || !fits(-range(t).0) || !fits(-range(t).1)),
        Cons::Element { idx, array, rhs } => array.iter().chain([idx, rhs]).any(|t| !fits(range(t).0) || !fits(range(t).1)),
        Cons::BinLe { a, b } => !fits(range(a).1 - range(b).0) || !fits(range(a).0 - range(b).1),
        _ => false,
    };
    m.cons.iter().filter(|p| hit(p)).map(|p| p.cons.kind()).collect()
}

impl Property for ArithProp {
    type Case = ArithCase;
    fn id(&self) -> &'static str {
        "C16"
    }
    fn rule(&self) -> String {
        "linear (<=, =, !=), times, division, absolute, maximum/minimum, element and binary <= constraints over variables and views whose domains and coefficients sit at magnitudes around 2^15.5, 2^16, 2^30 and the 32-bit limits; every API argument is a valid i32, right-hand sides and offsets are derived (in i128) from a planted assignment so that each model is satisfiable by construction. Regime 0: domains of <=4 values (intervals or sparse) at large magnitude - the iterated solution set and the optimum (both procedures, both directions) must equal exhaustive i128 enumeration. Regime 1: spans up to the whole i32 range - posting must not fail, satisfy must not answer Unsatisfiable, and the returned solution is evaluated exactly. Non-trivial: some intermediate quantity of the mathematical constraint (product of bounds, sum of coefficient*bound, rhs - sum, negated bound) leaves the i32 range although all arguments are in range; distinct by model hash.".into()
    }
    fn assumptions(&self) -> Vec<String> {
        vec!["division only with a denominator whose domain excludes 0 (documented precondition)".into(), "a solve which exhausts the poll budget is inconclusive".into()]
    }
    fn strategy(&self, _tier: Tier) -> BoxedStrategy<ArithCase> {
        (proptest::collection::vec(any::<u16>(), 120..=120), 0u8..4).prop_map(|(raw, r)| build(&raw, if r == 0 { 1 } else { 0 })).boxed()
    }
    fn cases(&self, tier: Tier) -> u64 {
        match tier {
            Tier::Quick => 300_000,
            Tier::Thorough => 5_000_000,
        }
    }
    fn floors(&self, _tier: Tier) -> Vec<(&'static str, f64)> {
        vec![("overflow_potential", 0.3), ("regime:1", 0.1)]
    }
    fn feature(&self, case: &ArithCase, name: &str) -> bool {
        if let Some(kind) = name.strip_prefix("only_kind:") {
            return !case.model.cons.is_empty() && case.model.cons.iter().all(|p| p.cons.kind() == kind);
        }
        match name {
            "overflow_potential" => overflow_potential(&case.model),
            // a variable or view whose domain contains i32::MIN is used where the implementation negates it
            // (a <= b is a + (-b) <= 0, a linear equality is two inequalities of which one has negated terms and right-hand side,
            // minimum = maximum of negated views, absolute and division work on
            // negated views, maximisation minimises the negated objective)
            "i32_min_negated" => {
                let has_min = |t: &Term| view_range(t, &case.model.vars).0 == i32::MIN as i128 || t.offset == i32::MIN || t.scale == i32::MIN;
                case.model.cons.iter().any(|p| match &p.cons {
                    Cons::BinLe { b, .. } => has_min(b),
                    Cons::LinEq { terms, rhs } => *rhs == i32::MIN || terms.iter().any(has_min),
                    Cons::Min { xs, m } => xs.iter().chain(std::iter::once(m)).any(has_min),
                    Cons::Abs { x, y } => has_min(x) || has_min(y),
                    Cons::Div { n, d, r } => has_min(n) || has_min(d) || has_min(r),
                    _ => false,
                }) || (case.regime == 0 && matches!(case.path, 2 | 4) && has_min(&case.objective))
            }
            _ => crate::props::features::model_feature(&case.model, name),
        }
    }
    fn run(&self, case: &ArithCase) -> Verdict {
        let m = &case.model;
        let mut out = Outcome::default();
        for p in &m.cons {
            out.classes.push(format!("kind:{}", p.cons.kind()));
        }
        out.classes.sort();
        out.classes.dedup();
        out.classes.push(format!("regime:{}", case.regime));
        let potential = overflow_potential(m);
        if potential {
            out.classes.push("overflow_potential".into());
            for k in overflow_kinds(m) {
                let c = format!("potential:{k}");
                if !out.classes.contains(&c) {
                    out.classes.push(c);
                }
            }
        }
        if !sem::is_solution(m, &case.witness) {
            panic!("harness: the planted witness {:?} does not satisfy the model {:?}", case.witness, m);
        }
        let mut cfg = Config::default_cfg();
        // bisecting value selection keeps the search depth logarithmic in the span
        cfg.brancher = BrSpec::Indep(Sel { vs: 2, vl: 6, tie_random: false, dynamic: false });
        let kinds: Vec<&str> = m.cons.iter().map(|p| p.cons.kind()).collect();
        let tag = kinds.join("+");
        if case.regime == 0 {
            // (up to ten variables with up to five values each: a few cases in a million exceed the limit of
            // the reference enumeration; they get no verdict)
            let Some(sols) = sem::solutions(m, 1_000_000) else {
                out.inconclusive = true;
                out.classes.push("enumeration_limit".into());
                return Ok(out);
            };
            match case.path {
                0 => {
                    let o = iterate_all(m, &cfg, 10_000);
                    compare_sets(m, &sols, &o, "large magnitudes").map_err(|mut f| {
                        f.sig = format!("{}:{}", f.sig, tag);
                        f
                    })?;
                    out.inconclusive = o.exhausted;
                }
                p => {
                    let maximise = p % 2 == 0;
                    let lsu = p <= 2;
                    let mut b = Built::from_model(m, &cfg, None);
                    if b.infeasible_at_post() {
                        return Err(Failure::new(format!("wrong:post-error-but-satisfiable:{tag}"), format!("posting failed although {:?} is a solution", case.witness)));
                    }
                    let mut br = b.brancher(&cfg.brancher);
                    let mut t = CountingTermination::budget(BUDGET);
                    let (r, _) = optimise(&mut b, &mut br, &mut t, lsu, maximise, &case.objective);
                    let best = sols.iter().map(|s| sem::tv(&case.objective, s)).fold(None, |acc: Option<i128>, v| Some(acc.map_or(v, |x| if maximise { x.max(v) } else { x.min(v) }))).unwrap();
                    match r {
                        OptRes::Optimal(a) => {
                            if let Some(why) = sem::first_violation(m, &a) {
                                return Err(Failure::new(format!("wrong:optimal-not-a-solution:{tag}"), format!("{:?}: {}", a, why)));
                            }
                            if sem::tv(&case.objective, &a) != best {
                                return Err(Failure::new(format!("wrong:not-optimal:{}:{tag}", if lsu { "lsu" } else { "lus" }), format!("Optimal({:?}) has objective {} but the optimum is {} (maximise: {maximise})", a, sem::tv(&case.objective, &a), best)));
                            }
                        }
                        OptRes::Unsat => return Err(Failure::new(format!("wrong:unsat-but-sat:{tag}"), format!("optimise reports Unsatisfiable although {:?} is a solution", case.witness))),
                        _ => {
                            if t.exhausted {
                                out.inconclusive = true;
                            } else {
                                return Err(Failure::new("wrong:unknown-without-stop", "optimise did not conclude"));
                            }
                        }
                    }
                }
            }
        } else {
            let mut b = Built::from_model(m, &cfg, None);
            if b.infeasible_at_post() {
                return Err(Failure::new(format!("wrong:post-error-but-satisfiable:{tag}"), format!("posting constraint #{} failed although {:?} is a solution", b.post_ok.iter().position(|x| !x).unwrap(), case.witness)));
            }
            let mut br = b.brancher(&cfg.brancher);
            let mut t = CountingTermination::budget(20_000);
            match satisfy(&mut b, &mut br, &mut t) {
                SatRes::Sat(a) => {
                    if let Some(why) = sem::first_violation(m, &a) {
                        return Err(Failure::new(format!("wrong:invented-solution:{tag}"), format!("Satisfiable({:?}): {}", a, why)));
                    }
                }
                SatRes::Unsat => return Err(Failure::new(format!("wrong:unsat-but-sat:{tag}"), format!("Unsatisfiable although {:?} is a solution", case.witness))),
                SatRes::Unknown => out.inconclusive = true,
            }
        }
        if potential {
            out.nontrivial = Some(m.struct_hash());
        }
        out.observed = Some(json!({"regime": case.regime, "path": case.path, "kinds": kinds, "overflow_potential": potential}));
        Ok(out)
    }
}
