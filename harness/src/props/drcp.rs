//! C19: DRCP files written by the library read back unchanged.
use std::num::{NonZeroI32, NonZeroU32, NonZeroU64};

use drcp_format::reader::ProofReader;
use drcp_format::steps::{Conclusion, Step};
use drcp_format::writer::ProofWriter;
use drcp_format::{AtomicConstraint, BoolAtomicConstraint, Comparison, Format, IntAtomicConstraint, LiteralDefinitions};
use proptest::prelude::*;
use serde::{Deserialize, Serialize};
use serde_json::json;

use crate::ir::hash_of;
use crate::runner::*;

#[derive(Clone, Debug, Serialize, Deserialize, Hash, PartialEq, Eq)]
pub enum StepSpec {
    Inference { premises: Vec<i32>, propagated: Option<i32>, tag: Option<u32>, label: Option<String> },
    Nogood { literals: Vec<i32>, hints: Option<Vec<u64>> },
    Deletion(u64),
}

#[derive(Clone, Debug, Serialize, Deserialize, Hash, PartialEq, Eq)]
pub enum AtomSpec {
    Int { name: String, cmp: u8, value: i64 },
    Bool { name: String, value: bool },
}

#[derive(Clone, Debug, Serialize, Deserialize, Hash)]
pub struct DrcpCase {
    pub steps: Vec<StepSpec>,
    /// None: no conclusion, Some(None): UNSAT, Some(Some(l)): optimal with bound literal l
    pub conclusion: Option<Option<i32>>,
    pub definitions: Vec<(u32, Vec<AtomSpec>)>,
}

pub struct DrcpProp;

fn lit_strategy() -> BoxedStrategy<i32> {
    prop_oneof![
        6 => (1i32..=50, any::<bool>()).prop_map(|(v, neg)| if neg { -v } else { v }),
        1 => prop_oneof![Just(1), Just(-1), Just(i32::MAX), Just(-i32::MAX), Just(i32::MIN), Just(i32::MAX - 1)],
        1 => any::<i32>().prop_map(|v| if v == 0 { 1 } else { v }),
    ]
    .boxed()
}

fn id_strategy() -> BoxedStrategy<u64> {
    prop_oneof![5 => 1u64..=40, 1 => prop_oneof![Just(1u64), Just(u64::MAX), Just(u32::MAX as u64 + 1)], 1 => any::<u64>().prop_map(|v| v.max(1))].boxed()
}

fn ident_strategy() -> BoxedStrategy<String> {
    // [A-Za-z_][A-Za-z0-9_]{0,12}, built from raw choices (regex strategies fork the RNG, which starves the
    // pass-through RNG of the fuzz target)
    const FIRST: &[u8] = b"ABCDEFGHIJKLMNOPQRSTUVWXYZabcdefghijklmnopqrstuvwxyz_";
    const REST: &[u8] = b"ABCDEFGHIJKLMNOPQRSTUVWXYZabcdefghijklmnopqrstuvwxyz_0123456789";
    (any::<u16>(), proptest::collection::vec(any::<u16>(), 0..=12))
        .prop_map(|(f, rest)| {
            let mut s = String::new();
            s.push(FIRST[pick(f, FIRST.len())] as char);
            s.extend(rest.iter().map(|r| REST[pick(*r, REST.len())] as char));
            s
        })
        .boxed()
}

fn step_strategy() -> BoxedStrategy<StepSpec> {
    prop_oneof![
        4 => (
            proptest::collection::vec(lit_strategy(), 0..=6),
            proptest::option::of(lit_strategy()),
            proptest::option::of(prop_oneof![1u32..=30, Just(u32::MAX), any::<u32>().prop_map(|v| v.max(1))]),
            proptest::option::of(ident_strategy()),
        )
            .prop_map(|(premises, propagated, tag, label)| StepSpec::Inference { premises, propagated, tag, label }),
        4 => (proptest::collection::vec(lit_strategy(), 0..=6), proptest::option::of(proptest::collection::vec(id_strategy(), 0..=5)))
            .prop_map(|(literals, hints)| StepSpec::Nogood { literals, hints }),
        1 => id_strategy().prop_map(StepSpec::Deletion),
    ]
    .boxed()
}

fn atom_strategy() -> BoxedStrategy<AtomSpec> {
    let value = prop_oneof![3 => -100i64..=100, 1 => prop_oneof![Just(i64::MIN), Just(i64::MAX), Just(i64::MIN + 1), Just(i64::MAX - 1), Just(0i64)], 1 => any::<i64>()];
    prop_oneof![
        4 => (ident_strategy(), 0u8..4, value).prop_map(|(name, cmp, value)| AtomSpec::Int { name, cmp, value }),
        1 => (ident_strategy(), any::<bool>()).prop_map(|(name, value)| AtomSpec::Bool { name, value }),
    ]
    .boxed()
}

fn to_atomic(a: &AtomSpec) -> AtomicConstraint<String> {
    match a {
        AtomSpec::Int { name, cmp, value } => AtomicConstraint::Int(IntAtomicConstraint {
            name: name.clone(),
            comparison: match cmp % 4 {
                0 => Comparison::GreaterThanEqual,
                1 => Comparison::LessThanEqual,
                2 => Comparison::Equal,
                _ => Comparison::NotEqual,
            },
            value: *value,
        }),
        AtomSpec::Bool { name, value } => AtomicConstraint::Bool(BoolAtomicConstraint { name: name.clone(), value: *value }),
    }
}

fn corner(case: &DrcpCase) -> bool {
    case.steps.iter().any(|s| match s {
        StepSpec::Inference { premises, .. } => premises.is_empty() || premises.iter().any(|l| l.unsigned_abs() >= i32::MAX as u32 - 1),
        StepSpec::Nogood { literals, hints } => literals.is_empty() || hints.as_ref().is_some_and(|h| h.is_empty()) || literals.iter().any(|l| l.unsigned_abs() >= i32::MAX as u32 - 1),
        StepSpec::Deletion(id) => *id > u32::MAX as u64,
    }) || case.definitions.iter().any(|(_, atoms)| atoms.iter().any(|a| matches!(a, AtomSpec::Int { value, .. } if *value <= i64::MIN + 1 || *value >= i64::MAX - 1)))
}

impl Property for DrcpProp {
    type Case = DrcpCase;
    fn id(&self) -> &'static str {
        "C19"
    }
    fn rule(&self) -> String {
        "generated sequences of 0-30 proof steps (inferences with 0-6 premises and optional propagated literal / tag / label, nogoods with 0-6 literals and absent / empty / 1-5 hints, deletions) and an optional conclusion, literal codes over the whole NonZeroI32 range, step ids over NonZeroU64, written with ProofWriter (text) and read with ProofReader: the step sequences must be equal; literal definition maps (1-12 codes, 1-3 atomic constraints each, identifiers from the reader's grammar, values over full i64) written and parsed back must be equal; !!a == a for every atomic constraint. All presence combinations of the optional parts x {empty, non-empty} lists are enumerated as fixed cases. Non-trivial: the case contains a corner layout (empty premise list, empty nogood, present-but-empty hints) or a code/value at a range boundary; distinct by hash of the case.".into()
    }
    fn extra_coverage(&self, _tier: Tier) -> Vec<(String, serde_json::Value)> {
        vec![("corner_layout_grid_exhaustive".into(), json!(true))]
    }
    fn fixed_cases(&self, _tier: Tier) -> Vec<DrcpCase> {
        let mut out = vec![];
        for premises in [vec![], vec![3, -4]] {
            for propagated in [None, Some(-7)] {
                for tag in [None, Some(12u32)] {
                    for label in [None, Some("linear_bounds".to_string())] {
                        out.push(DrcpCase {
                            steps: vec![StepSpec::Inference { premises: premises.clone(), propagated, tag, label: label.clone() }],
                            conclusion: None,
                            definitions: vec![],
                        });
                    }
                }
            }
        }
        for literals in [vec![], vec![5], vec![5, -6]] {
            for hints in [None, Some(vec![]), Some(vec![1u64]), Some(vec![2u64, 1])] {
                for conclusion in [None, Some(None), Some(Some(-3))] {
                    out.push(DrcpCase { steps: vec![StepSpec::Nogood { literals: literals.clone(), hints: hints.clone() }, StepSpec::Deletion(1)], conclusion, definitions: vec![] });
                }
            }
        }
        out
    }
    fn strategy(&self, _tier: Tier) -> BoxedStrategy<DrcpCase> {
        (
            proptest::collection::vec(step_strategy(), 0..=30),
            proptest::option::of(proptest::option::of(lit_strategy())),
            proptest::collection::vec((prop_oneof![1u32..=60, Just(u32::MAX), any::<u32>().prop_map(|v| v.max(1))], proptest::collection::vec(atom_strategy(), 1..=3)), 0..=12),
        )
            .prop_map(|(steps, conclusion, definitions)| DrcpCase { steps, conclusion, definitions })
            .boxed()
    }
    fn cases(&self, tier: Tier) -> u64 {
        match tier {
            Tier::Quick => 1_200_000,
            Tier::Thorough => 10_000_000,
        }
    }
    fn floors(&self, _tier: Tier) -> Vec<(&'static str, f64)> {
        vec![("corner", 0.4)]
    }
    fn run(&self, case: &DrcpCase) -> Verdict {
        let mut out = Outcome::default();
        let nz = |l: i32| NonZeroI32::new(l).expect("harness: zero literal");
        // ---- write
        let mut bytes: Vec<u8> = vec![];
        {
            let mut w = ProofWriter::new(Format::Text, &mut bytes, |l: NonZeroI32| l);
            for s in &case.steps {
                match s {
                    StepSpec::Inference { premises, propagated, tag, label } => {
                        let _ = w
                            .log_inference(tag.and_then(NonZeroU32::new), label.as_deref(), premises.iter().map(|l| nz(*l)), propagated.map(nz))
                            .expect("write");
                    }
                    StepSpec::Nogood { literals, hints } => {
                        let _ = w
                            .log_nogood_clause(literals.iter().map(|l| nz(*l)), hints.as_ref().map(|h| h.iter().map(|i| NonZeroU64::new(*i).unwrap()).collect::<Vec<_>>()))
                            .expect("write");
                    }
                    StepSpec::Deletion(id) => w.log_deletion(NonZeroU64::new(*id).unwrap()).expect("write"),
                }
            }
            match case.conclusion {
                None => {
                    // dropping the writer flushes its buffer
                    drop(w);
                }
                Some(None) => {
                    let _ = w.unsat().expect("write");
                }
                Some(Some(l)) => {
                    let _ = w.optimal(nz(l)).expect("write");
                }
            }
        }
        let text = String::from_utf8_lossy(&bytes).to_string();
        // ---- read
        let mut reader = ProofReader::new(bytes.as_slice(), |l: NonZeroI32| l);
        let mut next_id = 1u64;
        let mut expected: Vec<String> = vec![];
        for s in &case.steps {
            match s {
                StepSpec::Inference { premises, propagated, tag, label } => {
                    expected.push(format!("inference id={} premises={:?} propagated={:?} tag={:?} label={:?}", next_id, premises, propagated, tag, label));
                    next_id += 1;
                }
                StepSpec::Nogood { literals, hints } => {
                    expected.push(format!("nogood id={} literals={:?} hints={:?}", next_id, literals, hints));
                    next_id += 1;
                }
                StepSpec::Deletion(id) => expected.push(format!("delete id={}", id)),
            }
        }
        match case.conclusion {
            None => {}
            Some(None) => expected.push("conclusion unsat".into()),
            Some(Some(l)) => expected.push(format!("conclusion optimal {}", l)),
        }
        let mut got: Vec<String> = vec![];
        loop {
            let step = match reader.next_step() {
                Ok(Some(s)) => s,
                Ok(None) => break,
                Err(e) => {
                    let line = text.lines().nth(got.len()).unwrap_or("");
                    let shape = expected.get(got.len()).map(|e| layout_of(e)).unwrap_or_default();
                    return Err(Failure::new(
                        format!("roundtrip:reader-rejects:{}", shape),
                        format!("the reader rejects line {} `{}` written by the writer for step `{}`: {:?}", got.len() + 1, line, expected.get(got.len()).cloned().unwrap_or_default(), e),
                    ));
                }
            };
            got.push(match step {
                Step::Inference(i) => format!(
                    "inference id={} premises={:?} propagated={:?} tag={:?} label={:?}",
                    i.id,
                    i.premises.iter().map(|l| l.get()).collect::<Vec<_>>(),
                    i.propagated.map(|l| l.get()),
                    i.hint_constraint_id.map(|t| t.get()),
                    i.hint_label.map(|s| s.to_string())
                ),
                Step::Nogood(n) => format!(
                    "nogood id={} literals={:?} hints={:?}",
                    n.id,
                    n.literals.iter().map(|l| l.get()).collect::<Vec<_>>(),
                    n.hints.map(|h| h.iter().map(|i| i.get()).collect::<Vec<_>>())
                ),
                Step::Delete(d) => format!("delete id={}", d.id),
                Step::Conclusion(Conclusion::Unsatisfiable) => "conclusion unsat".into(),
                Step::Conclusion(Conclusion::Optimal(l)) => format!("conclusion optimal {}", l),
            });
        }
        if got != expected {
            let i = got.iter().zip(&expected).position(|(a, b)| a != b).unwrap_or(got.len().min(expected.len()));
            return Err(Failure::new(
                format!("roundtrip:steps-differ:{}", expected.get(i).map(|e| layout_of(e)).unwrap_or_default()),
                format!("step {} written as `{}` (line `{}`) was read back as `{}`", i, expected.get(i).cloned().unwrap_or("<none>".into()), text.lines().nth(i).unwrap_or(""), got.get(i).cloned().unwrap_or("<missing>".into())),
            ));
        }
        // ---- literal definitions
        let mut defs: LiteralDefinitions<String> = LiteralDefinitions::default();
        let mut model: std::collections::BTreeMap<u32, Vec<AtomicConstraint<String>>> = Default::default();
        for (code, atoms) in &case.definitions {
            for a in atoms {
                defs.add(NonZeroU32::new(*code).unwrap(), to_atomic(a));
                model.entry(*code).or_default().push(to_atomic(a));
            }
        }
        let mut lits_bytes: Vec<u8> = vec![];
        defs.write(&mut lits_bytes).expect("write definitions");
        let parsed = match LiteralDefinitions::<String>::parse(lits_bytes.as_slice()) {
            Ok(p) => p,
            Err(e) => {
                return Err(Failure::new("roundtrip:definitions-rejected", format!("the literal definition file written by the library is rejected: {:?}\n{}", e, String::from_utf8_lossy(&lits_bytes))));
            }
        };
        for (code, atoms) in &model {
            let got = parsed.get(NonZeroU32::new(*code).unwrap());
            if got != Some(atoms.as_slice()) {
                return Err(Failure::new("roundtrip:definitions-differ", format!("code {} defined as {:?} was read back as {:?}", code, atoms, got)));
            }
        }
        // ---- double negation
        for (_, atoms) in &case.definitions {
            for a in atoms {
                // the complement of [x >= i64::MIN] / [x <= i64::MAX] is not an atomic constraint over 64-bit
                // values (the library wraps around or, with overflow checks, panics): outside of the quantifier
                if matches!(a, AtomSpec::Int { cmp, value, .. } if (*cmp % 4 == 0 && *value == i64::MIN) || (*cmp % 4 == 1 && *value == i64::MAX)) {
                    out.counters.push(("negation_not_representable_skipped".into(), 1));
                    continue;
                }
                let x = to_atomic(a);
                let y = !(!x.clone());
                if x != y {
                    return Err(Failure::new("negation:double-negation-differs", format!("!!{} = {}", x, y)));
                }
            }
        }
        if corner(case) {
            out.classes.push("corner".into());
            out.nontrivial = Some(hash_of(case));
        }
        if !case.definitions.is_empty() {
            out.classes.push("has_definitions".into());
        }
        out.counters.push(("steps".into(), case.steps.len() as u64));
        out.observed = Some(json!({"steps": case.steps.len(), "bytes": bytes.len()}));
        Ok(out)
    }
    fn feature(&self, _case: &DrcpCase, _name: &str) -> bool {
        false
    }
}

/// a coarse description of the layout of a step, used in failure signatures
fn layout_of(expected: &str) -> String {
    if expected.starts_with("inference") {
        let empty = expected.contains("premises=[]");
        let prop = !expected.contains("propagated=None");
        format!("inference:{}:{}", if empty { "no-premises" } else { "premises" }, if prop { "propagated" } else { "no-propagated" })
    } else if expected.starts_with("nogood") {
        let empty = expected.contains("literals=[]");
        let hints = if expected.contains("hints=None") {
            "no-hints"
        } else if expected.contains("hints=Some([])") {
            "empty-hints"
        } else {
            "hints"
        };
        format!("nogood:{}:{}", if empty { "no-literals" } else { "literals" }, hints)
    } else {
        expected.split(' ').next().unwrap_or("").to_string()
    }
}
