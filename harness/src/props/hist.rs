//! C10 (API histories against a reference model) and C11 (interruption at every poll index).
use proptest::prelude::*;
use serde::{Deserialize, Serialize};
use serde_json::json;

use crate::adapter::*;
use crate::gen::*;
use crate::ir::*;
use crate::ops::*;
use crate::props::solve::*;
use crate::runner::*;
use crate::sem;

// ------------------------------------------------------------------------------------------
// C10

#[derive(Clone, Debug, Serialize, Deserialize, Hash)]
pub enum Op {
    NewVar(VarDecl),
    Post(Posted),
    AddClause(Vec<Pred>),
    Satisfy { reuse: bool },
    Assume { preds: Vec<Pred>, extract: bool, reuse: bool },
    Iterate { k: usize, reuse: bool },
    Optimise { lsu: bool, maximise: bool, objective: Term, reuse: bool },
    QueryBounds,
    /// a satisfy call (under one assumption if given) whose termination condition fires at poll `stop_at`
    Interrupted { stop_at: u64, assume: Option<Pred> },
}

#[derive(Clone, Debug, Serialize, Deserialize)]
pub struct HistCase {
    pub init: Vec<VarDecl>,
    pub cfg: Config,
    pub ops: Vec<Op>,
}

pub struct HistProp;

/// constraints which decompose into zero clauses / propagators
fn adds_nothing(p: &Posted) -> bool {
    match (&p.cons, p.mode) {
        (Cons::Conj { lits }, Mode::Post | Mode::ImpliedBy(_)) => lits.is_empty(),
        (Cons::Clause { lits }, Mode::Negated) => lits.is_empty(),
        _ => false,
    }
}

type RawOp = (u8, RawVar, RawCons, Vec<(u16, u8, u16)>, (u16, i8, i8), u8);

fn raw_op() -> BoxedStrategy<RawOp> {
    (
        any::<u8>(),
        (any::<u8>(), -4i8..=4, any::<u8>(), any::<u16>(), any::<u16>()),
        (
            any::<u16>(),
            proptest::array::uniform12(any::<u16>()),
            proptest::array::uniform12(-8i8..=8),
            any::<u16>(),
            any::<u16>(),
            any::<bool>(),
        ),
        proptest::collection::vec((any::<u16>(), any::<u8>(), any::<u16>()), 0..=3),
        (any::<u16>(), -3i8..=3, -3i8..=3),
        any::<u8>(),
    )
        .boxed()
}

impl HistProp {
    fn params() -> GenParams {
        let mut p = GenParams::standard();
        p.space_limit = 3000;
        p.max_dom = 5;
        p.mode_permille = 80;
        p.plant_permille = 850;
        p
    }
}

impl Property for HistProp {
    type Case = HistCase;
    fn id(&self) -> &'static str {
        "C10"
    }
    fn rule(&self) -> String {
        "stateful: sequences of 2-12 operations {new variable, post constraint (any kind/mode), add_clause, satisfy, satisfy_under_assumptions (+/- core extraction), iterate k solutions, optimise (both procedures, both directions, views), query bounds} on one solver with a fresh or a reused brancher; after every operation the result is judged by brute force against the accumulated reference model (variables, constraints, clauses, blocking clauses of iterated solutions, and the objective cut which SAT-UNSAT optimisation leaves behind); once infeasibility was reported every later post must fail and every solve must report Unsatisfiable; no operation may panic. Non-trivial: >=2 solving operations with a model-changing operation in between, or a solve after a solve which ended at decision level 0; distinct by hash of the operation sequence.".into()
    }
    fn assumptions(&self) -> Vec<String> {
        vec![
            "new variables are not created after infeasibility was reported (documented assertion)".into(),
            "a brancher is only reused while no variable was added since it was created".into(),
            "the objective cut left by LinearSatUnsat is part of the accumulated model (conservative reading)".into(),
        ]
    }
    fn strategy(&self, tier: Tier) -> BoxedStrategy<HistCase> {
        let p = Self::params();
        let max_ops = if tier == Tier::Quick { 10 } else { 14 };
        (
            proptest::collection::vec((any::<u8>(), -4i8..=4, any::<u8>(), any::<u16>(), any::<u16>()), 1..=3),
            raw_config_strategy(),
            proptest::collection::vec(raw_op(), 2..=max_ops),
        )
            .prop_map(move |(rinit, rcfg, rops)| {
                let mut vars = build_vars(&p, &rinit);
                let init = vars.clone();
                let mut witness: Vec<i32> = build_witness(&vars, &rinit);
                let mut cfg = build_config(&rcfg);
                cfg.no_learning = false; // KF-no-learning-assumptions: excluded by construction
                let mut ops = vec![];
                for (kind, rv, rc, ra, robj, k) in &rops {
                    let m = Model { vars: vars.clone(), cons: vec![] };
                    let reuse = k % 3 == 0;
                    let op = match kind % 16 {
                        0 | 1 => {
                            let room = p.space_limit as u128 / m.space().max(1);
                            if room < 2 || vars.len() >= 7 {
                                Op::QueryBounds
                            } else {
                                let mut pp = p.clone();
                                pp.space_limit = room as u64;
                                let d = build_vars(&pp, &[*rv]).pop().unwrap();
                                witness.push(build_witness(&[d.clone()], &[*rv])[0]);
                                vars.push(d.clone());
                                Op::NewVar(d)
                            }
                        }
                        2..=5 => match build_cons(&p, &vars, &witness, rc, ops.len()) {
                            Some(mut c) => {
                                c.tag = false;
                                if let Cons::PredClause { preds } = &c.cons {
                                    Op::AddClause(preds.clone())
                                } else {
                                    Op::Post(c)
                                }
                            }
                            None => Op::QueryBounds,
                        },
                        6 => Op::AddClause(build_assumptions(&m, ra)),
                        7 | 8 => Op::Satisfy { reuse },
                        9 => Op::Interrupted { stop_at: (*k as u64 / 3) % 6, assume: if k % 2 == 0 { build_assumptions(&m, ra).into_iter().next() } else { None } },
                        10 | 11 => Op::Assume { preds: build_assumptions(&m, ra), extract: k % 2 == 0, reuse },
                        12 | 13 => Op::Iterate { k: (*k as usize / 4) % 4, reuse },
                        14 => Op::Optimise { lsu: k % 2 == 0, maximise: k % 4 < 2, objective: build_objective(&m, robj), reuse },
                        _ => Op::QueryBounds,
                    };
                    ops.push(op);
                }
                HistCase { init, cfg, ops }
            })
            .boxed()
    }
    fn cases(&self, tier: Tier) -> u64 {
        match tier {
            Tier::Quick => 2_000_000,
            Tier::Thorough => 20_000_000,
        }
    }
    fn floors(&self, _tier: Tier) -> Vec<(&'static str, f64)> {
        vec![("solve_after_root_solve", 0.05), ("solve_after_change", 0.2), ("solve_after_core", 0.02), ("solve_after_finished_iteration", 0.01)]
    }
    fn run(&self, case: &HistCase) -> Verdict {
        let mut out = Outcome::default();
        config_classes(&case.cfg, &mut out.classes);
        let mut acc = Model { vars: case.init.clone(), cons: vec![] };
        let mut b = Built::new(&case.cfg, None);
        for v in &case.init {
            b.add_var(v);
        }
        let mut infeasible_reported = false;
        let mut reused: Option<(ObsBrancher, usize)> = None;
        let mut solves = 0;
        let mut changed_since_solve = false;
        let mut last_solve_at_root = false;
        let mut last_was_core = false;
        let mut last_was_finished_iter = false;
        let mut nontrivial = false;
        let limit = 5_000_000;
        let mut log: Vec<String> = vec![];

        macro_rules! fail {
            ($sig:expr, $($arg:tt)*) => {
                return Err(Failure::new($sig, format!("op #{} {}: {} | history: {:?}", log.len(), log.last().cloned().unwrap_or_default(), format!($($arg)*), log)))
            };
        }

        for op in &case.ops {
            log.push(format!("{:?}", op));
            let sols = sem::solutions(&acc, limit).expect("harness: enumeration limit");
            let is_solve = matches!(op, Op::Satisfy { .. } | Op::Assume { .. } | Op::Iterate { .. } | Op::Optimise { .. });
            if is_solve {
                solves += 1;
                if changed_since_solve && solves >= 2 {
                    out.classes.push("solve_after_change".into());
                    nontrivial = true;
                }
                if last_solve_at_root {
                    out.classes.push("solve_after_root_solve".into());
                    nontrivial = true;
                }
                if last_was_core {
                    out.classes.push("solve_after_core".into());
                }
                if last_was_finished_iter {
                    out.classes.push("solve_after_finished_iteration".into());
                }
                changed_since_solve = false;
                last_was_core = false;
                last_was_finished_iter = false;
            }
            // brancher: reuse only if no variable was added since it was created
            let reuse_flag = match op {
                Op::Satisfy { reuse } | Op::Assume { reuse, .. } | Op::Iterate { reuse, .. } | Op::Optimise { reuse, .. } => *reuse,
                _ => false,
            };
            let mut br = if is_solve {
                match reused.take() {
                    Some((br, n)) if reuse_flag && n == acc.vars.len() => {
                        out.classes.push("brancher_reused".into());
                        br
                    }
                    _ => b.brancher(&case.cfg.brancher),
                }
            } else {
                b.brancher(&BrSpec::Default)
            };
            let decisions_before = br.stats.decisions;
            let mut t = CountingTermination::budget(BUDGET);
            match op {
                Op::NewVar(d) => {
                    if infeasible_reported {
                        // documented: variables cannot be created once infeasibility was reported;
                        // later operations may refer to this variable, so the history ends here
                        break;
                    }
                    b.add_var(d);
                    acc.vars.push(d.clone());
                    changed_since_solve = true;
                    reused = None;
                }
                Op::Post(p) => {
                    let idx = acc.cons.len();
                    let ok = b.post(p, idx);
                    acc.cons.push(p.clone());
                    changed_since_solve = true;
                    let sols2 = sem::solutions(&acc, limit).expect("harness: enumeration limit");
                    if !ok {
                        if !sols2.is_empty() {
                            fail!("wrong:post-error-but-satisfiable", "post failed but the accumulated model has {} solutions, e.g. {:?}", sols2.len(), sols2[0]);
                        }
                        infeasible_reported = true;
                    } else if infeasible_reported && !adds_nothing(p) {
                        // (an empty conjunction adds nothing to the solver and trivially succeeds)
                        fail!("wrong:post-ok-after-infeasible", "post succeeded although infeasibility had been reported before");
                    }
                }
                Op::AddClause(preds) => {
                    let ps: Vec<_> = preds.iter().map(|p| b.pred(p)).collect();
                    let ok = b.solver.add_clause(ps).is_ok();
                    acc.cons.push(Posted::plain(Cons::PredClause { preds: preds.clone() }));
                    changed_since_solve = true;
                    let sols2 = sem::solutions(&acc, limit).expect("harness: enumeration limit");
                    if !ok {
                        if !sols2.is_empty() {
                            fail!("wrong:clause-error-but-satisfiable", "add_clause failed but the accumulated model has {} solutions", sols2.len());
                        }
                        infeasible_reported = true;
                    } else if infeasible_reported {
                        fail!("wrong:post-ok-after-infeasible", "add_clause succeeded although infeasibility had been reported before");
                    }
                }
                Op::QueryBounds => {
                    if !infeasible_reported {
                        for i in 0..acc.vars.len() {
                            let (lb, ub) = (b.solver.lower_bound(&b.doms[i]), b.solver.upper_bound(&b.doms[i]));
                            if let Some(s) = sols.iter().find(|s| s[i] < lb || s[i] > ub) {
                                fail!("wrong:bound-excludes-solution", "variable {i} has bounds [{lb}, {ub}] but {:?} is a solution", s);
                            }
                        }
                    }
                }
                Op::Interrupted { stop_at, assume } => {
                    // the call may be cut short at any poll: it answers Unknown, or correctly; either way the
                    // solver stays usable for everything that follows
                    out.classes.push("interrupted_solve".into());
                    let mut t = CountingTermination::stop_at(*stop_at, BUDGET);
                    let mut br = b.brancher(&case.cfg.brancher);
                    match assume {
                        None => match satisfy(&mut b, &mut br, &mut t) {
                            SatRes::Sat(a) => {
                                if let Some(why) = sem::first_violation(&acc, &a) {
                                    fail!("wrong:stale-or-invalid-solution", "Satisfiable({:?}): {}", a, why);
                                }
                            }
                            SatRes::Unsat => {
                                if !sols.is_empty() {
                                    fail!("wrong:unsat-but-sat", "Unsatisfiable (interrupted call) but the accumulated model has {} solutions", sols.len());
                                }
                                infeasible_reported = true;
                            }
                            SatRes::Unknown => {}
                        },
                        Some(p) => match satisfy_under_assumptions(&mut b, &mut br, &mut t, std::slice::from_ref(p), false) {
                            AssRes::Sat(a) => {
                                if let Some(why) = sem::first_violation(&acc, &a) {
                                    fail!("wrong:stale-or-invalid-solution", "Satisfiable({:?}) under an assumption: {}", a, why);
                                }
                                if !p.holds(a[p.var] as i64) {
                                    fail!("wrong:assumption-violated", "solution {:?} violates the assumption {:?}", a, p);
                                }
                            }
                            AssRes::UnsatUnderAssumptions(_) => {
                                if sols.iter().any(|s| p.holds(s[p.var] as i64)) {
                                    fail!("wrong:unsat-under-assumptions-but-sat", "the assumption {:?} is satisfiable", p);
                                }
                            }
                            AssRes::Unsat => {
                                if !sols.is_empty() {
                                    fail!("wrong:unsat-but-sat", "Unsatisfiable (interrupted assumption call) but the accumulated model has {} solutions", sols.len());
                                }
                                infeasible_reported = true;
                            }
                            AssRes::Unknown => {}
                        },
                    }
                }
                Op::Satisfy { .. } => {
                    let r = satisfy(&mut b, &mut br, &mut t);
                    match r {
                        SatRes::Sat(a) => {
                            if let Some(why) = sem::first_violation(&acc, &a) {
                                fail!("wrong:stale-or-invalid-solution", "Satisfiable({:?}): {}", a, why);
                            }
                        }
                        SatRes::Unsat => {
                            if !sols.is_empty() {
                                fail!("wrong:unsat-but-sat", "Unsatisfiable but the accumulated model has {} solutions, e.g. {:?}", sols.len(), sols[0]);
                            }
                            infeasible_reported = true;
                        }
                        SatRes::Unknown => {
                            if t.exhausted {
                                out.inconclusive = true;
                                return Ok(out);
                            }
                            fail!("wrong:unknown-without-stop", "Unknown");
                        }
                    }
                }
                Op::Assume { preds, extract, .. } => {
                    let s_a: Vec<&Vec<i32>> = sols.iter().filter(|s| preds.iter().all(|p| p.holds(s[p.var] as i64))).collect();
                    let r = satisfy_under_assumptions(&mut b, &mut br, &mut t, preds, *extract);
                    match r {
                        AssRes::Sat(a) => {
                            if let Some(why) = sem::first_violation(&acc, &a) {
                                fail!("wrong:stale-or-invalid-solution", "Satisfiable({:?}) under assumptions: {}", a, why);
                            }
                            if preds.iter().any(|p| !p.holds(a[p.var] as i64)) {
                                fail!("wrong:assumption-violated", "solution {:?} violates an assumption", a);
                            }
                        }
                        AssRes::UnsatUnderAssumptions(core) => {
                            if !s_a.is_empty() {
                                fail!("wrong:unsat-under-assumptions-but-sat", "assumptions are satisfiable, e.g. {:?}", s_a[0]);
                            }
                            if let CoreRes::ConflictingAssumptions(msg) = &core {
                                if !crate::props::opt::has_contradictory_pair(&acc, preds) {
                                    fail!("wrong:conflicting-assumptions-report", "'{}' but no two assumptions of {:?} exclude each other", msg, preds);
                                }
                            }
                            if let CoreRes::Core(core) = core {
                                last_was_core = true;
                                if crate::props::opt::has_negation_pair(preds) {
                                    fail!("wrong:contradictory-pair-not-reported", "the assumptions {:?} contain a predicate and its negation, but a core {:?} was returned", preds, core);
                                }
                                if let Some(s) = sols.iter().find(|s| core.iter().all(|p| p.holds(s[p.var] as i64))) {
                                    fail!("wrong:core-not-inconsistent", "solution {:?} satisfies the core {:?}", s, core);
                                }
                            }
                        }
                        AssRes::Unsat => {
                            if !sols.is_empty() {
                                fail!("wrong:unsat-but-sat", "Unsatisfiable (assumption solve) but the accumulated model has {} solutions", sols.len());
                            }
                            infeasible_reported = true;
                        }
                        AssRes::Unknown => {
                            if t.exhausted {
                                out.inconclusive = true;
                                return Ok(out);
                            }
                            fail!("wrong:unknown-without-stop", "Unknown");
                        }
                    }
                }
                Op::Iterate { k, .. } => {
                    let (got, end) = iterate(&mut b, &mut br, &mut t, *k);
                    let mut seen = std::collections::HashSet::new();
                    for a in &got {
                        if let Some(why) = sem::first_violation(&acc, a) {
                            fail!("wrong:stale-or-invalid-solution", "iterated {:?}: {}", a, why);
                        }
                        if !seen.insert(a.clone()) {
                            fail!("wrong:iterated-duplicate", "{:?} produced twice", a);
                        }
                    }
                    match end {
                        IterEnd::Limit => {
                            // the blocking clause of the last solution has not been added
                            for a in got.iter().take(got.len().saturating_sub(1)) {
                                acc.cons.push(Posted::plain(Cons::PredClause { preds: a.iter().enumerate().map(|(v, x)| Pred { var: v, kind: PKind::Ne, val: *x }).collect() }));
                            }
                            if got.len() > 1 {
                                changed_since_solve = true;
                            }
                        }
                        IterEnd::Finished | IterEnd::Unsat => {
                            if got.len() != sols.len() {
                                fail!("wrong:iteration-incomplete", "iteration ended with {:?} after {} of {} solutions", end, got.len(), sols.len());
                            }
                            if (end == IterEnd::Unsat) != sols.is_empty() {
                                fail!("wrong:iteration-terminal-value", "terminal value {:?} with {} solutions", end, sols.len());
                            }
                            for a in &got {
                                acc.cons.push(Posted::plain(Cons::PredClause { preds: a.iter().enumerate().map(|(v, x)| Pred { var: v, kind: PKind::Ne, val: *x }).collect() }));
                            }
                            infeasible_reported = true;
                            last_was_finished_iter = true;
                        }
                        IterEnd::Unknown => {
                            if t.exhausted {
                                out.inconclusive = true;
                                return Ok(out);
                            }
                            fail!("wrong:unknown-without-stop", "iterator Unknown");
                        }
                    }
                }
                Op::Optimise { lsu, maximise, objective, .. } => {
                    let (r, cbs) = optimise(&mut b, &mut br, &mut t, *lsu, *maximise, objective);
                    let val = |a: &[i32]| sem::tv(objective, a);
                    let best = sols.iter().map(|s| val(s)).fold(None, |acc: Option<i128>, v| Some(acc.map_or(v, |x| if *maximise { x.max(v) } else { x.min(v) })));
                    for a in &cbs {
                        if let Some(why) = sem::first_violation(&acc, a) {
                            fail!("wrong:stale-or-invalid-solution", "callback {:?}: {}", a, why);
                        }
                    }
                    match r {
                        OptRes::Optimal(a) => {
                            if let Some(why) = sem::first_violation(&acc, &a) {
                                fail!("wrong:stale-or-invalid-solution", "Optimal({:?}): {}", a, why);
                            }
                            if Some(val(&a)) != best {
                                fail!("wrong:not-optimal", "Optimal with objective {} but the optimum is {:?}", val(&a), best);
                            }
                            if *lsu {
                                // the cut "strictly better than the optimum" stays in the solver
                                let v = val(&a);
                                let cut = if *maximise {
                                    Cons::LinLe { terms: vec![Term { var: objective.var, scale: -objective.scale, offset: -objective.offset }], rhs: (-v - 1) as i32 }
                                } else {
                                    Cons::LinLe { terms: vec![*objective], rhs: (v - 1) as i32 }
                                };
                                acc.cons.push(Posted::plain(cut));
                                infeasible_reported = true;
                            }
                        }
                        OptRes::Unsat => {
                            if !sols.is_empty() {
                                fail!("wrong:unsat-but-sat", "optimise Unsatisfiable but the accumulated model has {} solutions", sols.len());
                            }
                            infeasible_reported = true;
                        }
                        OptRes::Satisfiable(_) | OptRes::Unknown => {
                            if t.exhausted {
                                out.inconclusive = true;
                                return Ok(out);
                            }
                            fail!("wrong:unknown-without-stop", "optimise did not conclude");
                        }
                    }
                }
            }
            if is_solve {
                last_solve_at_root = br.stats.decisions == decisions_before && !infeasible_reported;
                reused = Some((br, acc.vars.len()));
            }
        }
        if solves >= 1 {
            out.classes.push("has_solve".into());
        }
        if nontrivial {
            out.nontrivial = Some(hash_of(&(&case.init, &case.ops)));
        }
        out.observed = Some(json!({"ops": case.ops.len(), "solves": solves, "infeasible_reported": infeasible_reported}));
        Ok(out)
    }
}

// ------------------------------------------------------------------------------------------
// C11

#[derive(Clone, Debug, Serialize, Deserialize)]
pub struct StopCase {
    pub model: Model,
    pub cfg: Config,
    /// 0 satisfy, 1 iterate, 2 satisfy under assumptions, 3 optimise SAT-UNSAT, 4 optimise UNSAT-SAT
    pub path: u8,
    pub objective: Term,
    pub maximise: bool,
    /// reuse the brancher of the interrupted solve for the follow-up solve
    pub reuse_brancher: bool,
    #[serde(default)]
    pub assumptions: Vec<Pred>,
    /// a command-line case (the model and the other fields are placeholders then)
    #[serde(default)]
    pub cli: Option<CliStop>,
}

/// An optimisation run of the FlatZinc front-end which the wall-clock limit `-t` interrupts between an
/// improvable solution and the end of the search (see `StopProp::run_cli_stop`).
#[derive(Clone, Debug, Serialize, Deserialize)]
pub struct CliStop {
    /// number of holes of the pigeon-hole gadget (holes + 1 pigeons)
    pub holes: u8,
    pub limit_ms: u64,
    pub all_solutions: bool,
    pub minimise: bool,
    /// `--optimisation-strategy linear-unsat-sat`
    pub lus: bool,
    pub seed: u64,
}

pub struct StopProp;

impl StopProp {
    /// The objective `obj` ranges over 0..2 and is maximised (or mirrored and minimised). Reaching the best
    /// value switches on a pigeon-hole formula, every clause of which is weakened by a switch `s` that the
    /// prescribed search fixes to false first: the best value is feasible (`s` = true), but the solver only
    /// finds it after refuting the pigeon-hole formula - tens of seconds for 12-13 holes - whereas the two
    /// worse values are found at once. A limit of a few hundred milliseconds therefore interrupts the run
    /// while its incumbent is not optimal. The oracle does not depend on that timing: whenever the
    /// optimality line is printed the last printed objective value must be the true optimum, and
    /// UNSATISFIABLE must never be printed.
    fn cli_stop_model(c: &CliStop) -> String {
        let n = c.holes as usize;
        let pigeons = n + 1;
        let mut l: Vec<String> = vec!["var 0..2: obj :: output_var;".into()];
        for i in 0..pigeons {
            for j in 0..n {
                l.push(format!("var bool: p_{i}_{j};"));
            }
        }
        l.push("var bool: s :: output_var;".into());
        l.push("var bool: gate;".into());
        // gate <-> the objective has not reached its best value
        if c.minimise {
            l.push("constraint int_le_reif(1,obj,gate);".into());
        } else {
            l.push("constraint int_le_reif(obj,1,gate);".into());
        }
        for i in 0..pigeons {
            let ps: Vec<String> = (0..n).map(|j| format!("p_{i}_{j}")).collect();
            l.push(format!("constraint bool_clause([{},s,gate],[]);", ps.join(",")));
        }
        for j in 0..n {
            for i in 0..pigeons {
                for k in i + 1..pigeons {
                    l.push(format!("constraint bool_clause([s,gate],[p_{i}_{j},p_{k}_{j}]);"));
                }
            }
        }
        let mut order: Vec<String> = vec!["s".into()];
        for i in 0..pigeons {
            for j in 0..n {
                order.push(format!("p_{i}_{j}"));
            }
        }
        let (sel, dir) = if c.minimise { ("indomain_max", "minimize") } else { ("indomain_min", "maximize") };
        l.push(format!(
            "solve :: seq_search([int_search([obj],input_order,{sel},complete), bool_search([{}],input_order,indomain_min,complete)]) {dir} obj;",
            order.join(",")
        ));
        l.join("\n") + "\n"
    }

    fn run_cli_stop(c: &CliStop) -> Verdict {
        use crate::cli::*;
        let mut out = Outcome::default();
        out.classes.push("cli_time_limit".into());
        let text = Self::cli_stop_model(c);
        let input = scratch_file("fzn");
        std::fs::write(&input, &text).expect("write fzn");
        let mut args: Vec<String> = vec![input.to_string_lossy().to_string(), "-t".into(), c.limit_ms.to_string(), "--random-seed".into(), c.seed.to_string()];
        if c.all_solutions {
            args.push("-a".into());
        }
        if c.lus {
            args.push("--optimisation-strategy".into());
            args.push("linear-unsat-sat".into());
        }
        let o = run_cli(&args, std::time::Duration::from_secs(60));
        cleanup(&[&input]);
        if o.timed_out {
            // the process ignored its own limit for a minute: not something this oracle judges
            out.inconclusive = true;
            out.notes.push(format!("command-line run with -t {} still running after 60 s", c.limit_ms));
            return Ok(out);
        }
        if o.status != Some(0) {
            return Err(Failure::new("cli:rejected-or-crashed", format!("exit status {:?}; stderr {:?}", o.status, o.stderr.chars().take(400).collect::<String>())));
        }
        let objs: Vec<i64> = o
            .stdout
            .lines()
            .filter_map(|l| l.trim().strip_prefix("obj = ").and_then(|r| r.trim_end_matches(';').trim().parse().ok()))
            .collect();
        let optimum: i64 = if c.minimise { 0 } else { 2 };
        let claims_optimal = o.stdout.lines().any(|l| l.trim() == "==========");
        let summary: String = o.stdout.lines().filter(|l| !l.starts_with("s = ")).collect::<Vec<_>>().join(" ");
        if o.stdout.contains("=====UNSATISFIABLE=====") {
            return Err(Failure::new("wrong:cli-unsat-because-interrupted", format!("args {:?}: UNSATISFIABLE printed for a satisfiable model; output: {summary}", &args[1..])));
        }
        if let Some(v) = objs.iter().find(|v| **v < 0 || **v > 2) {
            return Err(Failure::new("wrong:cli-objective-out-of-domain", format!("objective value {v} printed; output: {summary}")));
        }
        if claims_optimal {
            out.classes.push("cli:finished".into());
            if objs.last() != Some(&optimum) {
                return Err(Failure::new(
                    "wrong:cli-optimal-because-interrupted",
                    format!("args {:?}: the optimality line ========== follows the objective value {:?}, but the optimum is {optimum}; output: {summary}", &args[1..], objs.last()),
                ));
            }
        } else {
            out.classes.push("cli:interrupted".into());
            if !objs.is_empty() || !c.all_solutions {
                out.nontrivial = Some(hash_of(&(c.holes, c.limit_ms, c.all_solutions, c.minimise, c.lus, c.seed)));
            }
        }
        out.observed = Some(json!({"objective_values_printed": objs, "optimality_line": claims_optimal}));
        Ok(out)
    }
}

impl StopProp {
    /// run the operation on `b` with the given termination; returns a description of the result
    /// after judging it against the reference; `followup` = judging the solve after an interruption
    fn run_op(
        case: &StopCase,
        m: &Model,
        sols: &[Vec<i32>],
        b: &mut Built,
        br: &mut ObsBrancher,
        t: &mut CountingTermination,
        what: &str,
        blocked: &mut Vec<Vec<i32>>,
        cut: &mut Option<i128>,
    ) -> Result<bool, Failure> {
        // reference for this call: solutions not blocked and better than the cut
        let val = |a: &[i32]| sem::tv(&case.objective, a);
        let better = |x: i128, y: i128| if case.maximise { x > y } else { x < y };
        let live: Vec<&Vec<i32>> = sols.iter().filter(|s| !blocked.contains(s) && cut.map_or(true, |c| better(val(s), c))).collect();
        let definitive;
        match case.path {
            0 => match satisfy(b, br, t) {
                SatRes::Sat(a) => {
                    if let Some(why) = sem::first_violation(m, &a) {
                        return Err(Failure::new("wrong:invalid-solution", format!("[{what}] Satisfiable({:?}): {}", a, why)));
                    }
                    definitive = true;
                }
                SatRes::Unsat => {
                    if !live.is_empty() {
                        return Err(Failure::new("wrong:unsat-but-sat", format!("[{what}] Unsatisfiable but {} solutions exist, e.g. {:?}", live.len(), live[0])));
                    }
                    definitive = true;
                }
                SatRes::Unknown => definitive = false,
            },
            2 => {
                let live_a: Vec<&&Vec<i32>> = live.iter().filter(|s| case.assumptions.iter().all(|p| p.holds(s[p.var] as i64))).collect();
                match satisfy_under_assumptions(b, br, t, &case.assumptions, false) {
                    AssRes::Sat(a) => {
                        if let Some(why) = sem::first_violation(m, &a) {
                            return Err(Failure::new("wrong:invalid-solution", format!("[{what}] Satisfiable({:?}) under assumptions: {}", a, why)));
                        }
                        if case.assumptions.iter().any(|p| !p.holds(a[p.var] as i64)) {
                            return Err(Failure::new("wrong:assumption-violated", format!("[{what}] solution {:?} violates an assumption of {:?}", a, case.assumptions)));
                        }
                        definitive = true;
                    }
                    AssRes::UnsatUnderAssumptions(_) => {
                        if !live_a.is_empty() {
                            return Err(Failure::new("wrong:unsat-under-assumptions-but-sat", format!("[{what}] the assumptions {:?} are satisfiable, e.g. {:?}", case.assumptions, live_a[0])));
                        }
                        definitive = true;
                    }
                    AssRes::Unsat => {
                        if !live.is_empty() {
                            return Err(Failure::new("wrong:unsat-but-sat", format!("[{what}] Unsatisfiable but {} solutions exist", live.len())));
                        }
                        definitive = true;
                    }
                    AssRes::Unknown => definitive = false,
                }
            }
            1 => {
                let (got, end) = iterate(b, br, t, 100_000);
                for a in &got {
                    if !live.contains(&a) {
                        let why = sem::first_violation(m, a).unwrap_or("it was produced before".into());
                        return Err(Failure::new("wrong:iterated-wrong-assignment", format!("[{what}] iterated {:?}: {}", a, why)));
                    }
                }
                let mut seen = std::collections::HashSet::new();
                if got.iter().any(|a| !seen.insert(a.clone())) {
                    return Err(Failure::new("wrong:iterated-duplicate", format!("[{what}] duplicate in {:?}", got)));
                }
                match end {
                    IterEnd::Finished | IterEnd::Unsat => {
                        if got.len() != live.len() {
                            return Err(Failure::new("wrong:iteration-incomplete", format!("[{what}] ended with {:?} after {} of {} remaining solutions", end, got.len(), live.len())));
                        }
                        if end == IterEnd::Unsat && !got.is_empty() {
                            return Err(Failure::new("wrong:iteration-terminal-value", format!("[{what}] Unsatisfiable after {} solutions", got.len())));
                        }
                        definitive = true;
                    }
                    _ => definitive = false,
                }
                // blocking clauses: all but the last produced solution are certainly blocked; the last one
                // only if the iterator asked for another solution afterwards (it did unless the limit hit)
                blocked.extend(got.iter().cloned());
                if !definitive {
                    // the last solution's clause is added at the start of the call which was interrupted
                }
            }
            _ => {
                let lsu = case.path == 3;
                let (r, cbs) = optimise(b, br, t, lsu, case.maximise, &case.objective);
                for a in &cbs {
                    if let Some(why) = sem::first_violation(m, a) {
                        return Err(Failure::new("wrong:invalid-solution", format!("[{what}] callback {:?}: {}", a, why)));
                    }
                }
                let best = live.iter().map(|s| val(s)).fold(None, |acc: Option<i128>, v| Some(acc.map_or(v, |x| if better(v, x) { v } else { x })));
                match r {
                    OptRes::Optimal(a) => {
                        if let Some(why) = sem::first_violation(m, &a) {
                            return Err(Failure::new("wrong:invalid-solution", format!("[{what}] Optimal({:?}): {}", a, why)));
                        }
                        if Some(val(&a)) != best {
                            return Err(Failure::new("wrong:optimal-because-interrupted", format!("[{what}] Optimal({:?}) with objective {} but the optimum is {:?}", a, val(&a), best)));
                        }
                        if lsu {
                            *cut = Some(val(&a));
                        }
                        definitive = true;
                    }
                    OptRes::Satisfiable(a) => {
                        if let Some(why) = sem::first_violation(m, &a) {
                            return Err(Failure::new("wrong:invalid-solution", format!("[{what}] Satisfiable({:?}): {}", a, why)));
                        }
                        if lsu {
                            *cut = Some(val(&a));
                        }
                        definitive = false;
                    }
                    OptRes::Unsat => {
                        if !live.is_empty() {
                            return Err(Failure::new("wrong:unsat-because-interrupted", format!("[{what}] Unsatisfiable but {} solutions exist", live.len())));
                        }
                        definitive = true;
                    }
                    OptRes::Unknown => definitive = false,
                }
            }
        }
        Ok(definitive)
    }
}

impl Property for StopProp {
    type Case = StopCase;
    fn id(&self) -> &'static str {
        "C11"
    }
    fn level(&self) -> &'static str {
        "fault_enumeration"
    }
    fn rule(&self) -> String {
        "generated model x configuration x operation {satisfy, iterate, optimise SAT-UNSAT, optimise UNSAT-SAT}; an uninterrupted run records the number N of polls of the termination condition; then the harness-owned termination fires from poll k on, for EVERY k in 0..=N when N <= 64 (a stratified sample of 64 otherwise), each on a fresh solver: the result must be Unknown / the best solution so far (valid) / a correct definitive answer, and asking the same solver again without interruption (fresh or reused brancher) must give the correct definitive answer for the accumulated model. evaluations counts (case, k) pairs. Non-trivial: 0 < k < N with N >= 4; distinct by hash of (model, operation, k). In addition 32 (thorough: 160) fixed command-line cases: a FlatZinc optimisation model whose best objective value is only reached after refuting a 12-13-hole pigeon-hole formula (tens of seconds) while two worse values are found at once, run through the real binary with a wall-clock limit -t of 120-500 ms (with/without -a, maximise/minimise, both optimisation strategies): whenever the optimality line is printed the last printed objective value must be the true optimum, and UNSATISFIABLE is never printed (an oracle which holds whatever the timing).".into()
    }
    fn assumptions(&self) -> Vec<String> {
        vec!["interruption is modelled at the poll points of TerminationCondition::should_stop (the only place where the solver looks at it)".into()]
    }
    fn extra_coverage(&self, _tier: Tier) -> Vec<(String, serde_json::Value)> {
        vec![("exhaustive_over_stop_index_when_N_le_64".into(), json!(true))]
    }
    fn strategy(&self, tier: Tier) -> BoxedStrategy<StopCase> {
        let mut p = GenParams::standard();
        p.min_cons = 1;
        p.space_limit = if tier == Tier::Quick { 600 } else { 3000 };
        let pp = p.clone();
        (raw_model_strategy(&p), raw_config_strategy(), raw_extras(), any::<bool>())
            .prop_map(move |((rv, rc), rcfg, ex, reuse_brancher)| {
                let model = build_model(&pp, &rv, &rc);
                let mut cfg = build_config(&rcfg);
                let path = [0u8, 1, 2, 3, 4][(ex.0 as usize) % 5];
                if path == 4 || path == 2 {
                    cfg.no_learning = false; // KF-no-learning-assumptions
                }
                let objective = build_objective(&model, &ex.1);
                let assumptions = if path == 2 { build_assumptions(&model, &ex.3) } else { vec![] };
                StopCase { model, cfg, path, objective, maximise: ex.2, reuse_brancher, assumptions, cli: None }
            })
            .boxed()
    }
    fn cases(&self, tier: Tier) -> u64 {
        match tier {
            Tier::Quick => 25_000,
            Tier::Thorough => 400_000,
        }
    }
    /// command-line runs interrupted by the wall-clock limit (the grid is a pure function of the seed)
    fn fixed_cases(&self, tier: Tier) -> Vec<StopCase> {
        let n = if tier == Tier::Quick { 32u64 } else { 160 };
        let seed: u64 = std::env::var("VERIF_SEED").ok().and_then(|s| s.parse().ok()).unwrap_or(1);
        (0..n)
            .map(|i| {
                let h = (seed.wrapping_mul(0x9E37_79B9_7F4A_7C15) ^ i.wrapping_mul(0xBF58_476D_1CE4_E5B9)).rotate_left(17).wrapping_mul(0x94D0_49BB_1331_11EB);
                StopCase {
                    model: Model { vars: vec![VarDecl::Bool], cons: vec![] },
                    cfg: Config::default_cfg(),
                    path: 3,
                    objective: Term::plain(0),
                    maximise: true,
                    reuse_brancher: false,
                    assumptions: vec![],
                    cli: Some(CliStop {
                        holes: 12 + (i % 2) as u8,
                        limit_ms: 120 + (h >> 8) % 380,
                        all_solutions: i % 4 < 3,
                        minimise: (i / 2) % 2 == 1,
                        lus: i % 8 == 7,
                        seed: (h >> 40) % 1000,
                    }),
                }
            })
            .collect()
    }
    fn floors(&self, _tier: Tier) -> Vec<(&'static str, f64)> {
        vec![("N>=4", 0.22), ("exhaustive_k", 0.5)]
    }
    fn run(&self, case: &StopCase) -> Verdict {
        if let Some(c) = &case.cli {
            return Self::run_cli_stop(c);
        }
        let m = &case.model;
        let mut out = Outcome::default();
        model_classes(m, &mut out.classes);
        out.classes.push(format!("path:{}", case.path));
        let sols = sem::solutions(m, 5_000_000).expect("harness: enumeration limit");
        // uninterrupted run
        let n_polls;
        {
            let mut b = Built::from_model(m, &case.cfg, None);
            if b.infeasible_at_post() {
                out.classes.push("post_error".into());
                return Ok(out);
            }
            let mut br = b.brancher(&case.cfg.brancher);
            let mut t = CountingTermination::budget(20_000);
            let definitive = Self::run_op(case, m, &sols, &mut b, &mut br, &mut t, "uninterrupted", &mut vec![], &mut None)?;
            if t.exhausted || !definitive {
                out.inconclusive = true;
                return Ok(out);
            }
            n_polls = t.polls;
        }
        let ks: Vec<u64> = if n_polls <= 64 {
            out.classes.push("exhaustive_k".into());
            (0..=n_polls).collect()
        } else {
            (0..64).map(|i| i * n_polls / 63).collect()
        };
        if n_polls >= 4 {
            out.classes.push("N>=4".into());
        }
        let mut interrupted = 0;
        for &k in &ks {
            let mut b = Built::from_model(m, &case.cfg, None);
            let mut br = b.brancher(&case.cfg.brancher);
            let mut t = CountingTermination::stop_at(k, 1_000_000);
            let mut blocked = vec![];
            let mut cut = None;
            let what = format!("stop at poll {k} of {n_polls}");
            let definitive = Self::run_op(case, m, &sols, &mut b, &mut br, &mut t, &what, &mut blocked, &mut cut)?;
            if !t.fired && !definitive {
                return Err(Failure::new("wrong:unknown-without-stop", format!("[{what}] no definitive answer although the termination did not fire")));
            }
            if t.fired {
                interrupted += 1;
                // whatever the moment of the interruption, the solver is back at the root afterwards: the bounds
                // it reports must not exclude a solution of the model (blocking clauses and objective cuts only
                // remove solutions, so the remaining ones are a subset of `sols` which has to be inside the bounds;
                // only the solutions which are still live are required to be inside)
                let live: Vec<&Vec<i32>> = sols
                    .iter()
                    .filter(|s| !blocked.contains(s) && cut.map_or(true, |c| if case.maximise { sem::tv(&case.objective, s) > c } else { sem::tv(&case.objective, s) < c }))
                    .collect();
                for (v, d) in b.doms.iter().enumerate() {
                    let (lb, ub) = (b.solver.lower_bound(d), b.solver.upper_bound(d));
                    if let Some(s) = live.iter().find(|s| s[v] < lb || s[v] > ub) {
                        return Err(Failure::new(
                            "wrong:bounds-after-interruption-exclude-solution",
                            format!("[{what}] after the interrupted call variable {v} has bounds [{lb}, {ub}] but {:?} is a solution which no blocking clause or objective cut removed", s),
                        ));
                    }
                }
            }
            // ask again without interruption
            let mut br2 = if case.reuse_brancher { br } else { b.brancher(&case.cfg.brancher) };
            let mut t2 = CountingTermination::budget(200_000);
            if case.path == 1 && !definitive && !blocked.is_empty() {
                // the interrupted call had already added the blocking clause of the last solution
            }
            let what2 = format!("follow-up after stop at poll {k} of {n_polls}");
            // for iteration, solutions whose blocking clause may or may not have been added: the last
            // one produced before an interruption IS blocked (the clause is added before the solve)
            let definitive2 = match Self::run_op(case, m, &sols, &mut b, &mut br2, &mut t2, &what2, &mut blocked, &mut cut) {
                Ok(d) => d,
                Err(f) => return Err(f),
            };
            if !definitive2 {
                if t2.exhausted {
                    out.inconclusive = true;
                } else {
                    return Err(Failure::new("wrong:unknown-without-stop", format!("[{what2}] no definitive answer")));
                }
            }
        }
        out.sub_evals = ks.len() as u64;
        out.counters.push(("interrupted_runs".into(), interrupted));
        if n_polls >= 4 {
            out.nontrivial = Some(hash_of(&(m, case.path, n_polls)));
        }
        out.observed = Some(json!({"polls_uninterrupted": n_polls, "stop_points": ks.len(), "interrupted": interrupted}));
        Ok(out)
    }
}
