//! C20: runs are reproducible for a fixed seed (library: two fresh solvers in one process;
//! command line: two separate processes).
use std::time::Duration;

use proptest::prelude::*;
use serde::{Deserialize, Serialize};
use serde_json::json;

use crate::adapter::*;
use crate::cli::*;
use crate::gen::*;
use crate::ir::*;
use crate::ops::*;
use crate::props::dimacs::{render_cnf, render_wcnf, truncate, WcnfCase};
use crate::props::fzn::{build_fzn, FznModel};
use crate::props::solve::{build_objective, config_classes};
use crate::runner::*;

#[derive(Clone, Debug, Serialize, Deserialize, Hash)]
pub enum ReproCase {
    Lib {
        model: Model,
        cfg: Config,
        /// 0 iterate, 1 optimise SAT-UNSAT, 2 optimise UNSAT-SAT, 3 iterate with a full hinted proof
        path: u8,
        objective: Term,
        maximise: bool,
    },
    Cnf { num_vars: usize, clauses: Vec<Vec<i32>>, seed: u64, proof: bool },
    Wcnf { case: WcnfCase },
    Fzn { model: FznModel, seed: u64, all: bool, free: bool, proof: u8 },
}

pub struct ReproProp;

#[derive(PartialEq, Debug)]
struct LibTrace {
    post_ok: Vec<bool>,
    solutions: Vec<Vec<i32>>,
    result: String,
    polls: u64,
    decisions: u64,
    conflicts: u64,
    proof: Option<(Vec<u8>, Vec<u8>)>,
}

fn lib_run(model: &Model, cfg: &Config, path: u8, objective: &Term, maximise: bool) -> LibTrace {
    let proof_path = if path == 3 { Some(scratch_file("drcp")) } else { None };
    let proof = proof_path.as_ref().map(|p| cp_proof(p, true, true));
    let mut cfg = cfg.clone();
    if path == 3 {
        cfg.named = true;
        cfg.no_learning = false;
    }
    let mut b = Built::from_model(model, &cfg, proof);
    let mut trace = LibTrace { post_ok: b.post_ok.clone(), solutions: vec![], result: String::new(), polls: 0, decisions: 0, conflicts: 0, proof: None };
    if !b.infeasible_at_post() {
        let mut br = b.brancher(&cfg.brancher);
        let mut t = CountingTermination::budget(60_000);
        match path {
            0 | 3 => {
                let (got, end) = iterate(&mut b, &mut br, &mut t, 200);
                trace.solutions = got;
                trace.result = format!("{:?}", end);
            }
            _ => {
                let (r, cbs) = optimise(&mut b, &mut br, &mut t, path == 1, maximise, objective);
                trace.solutions = cbs;
                trace.result = format!("{:?}", r);
            }
        }
        trace.polls = t.polls;
        trace.decisions = br.stats.decisions;
        trace.conflicts = br.stats.conflicts;
    }
    drop(b);
    if let Some(p) = proof_path {
        let lits = p.with_extension("lits");
        let a = std::fs::read(&p).unwrap_or_default();
        let l = std::fs::read(&lits).unwrap_or_default();
        cleanup(&[&p, &lits]);
        trace.proof = Some((a, l));
    }
    trace
}

/// remove the only wall-clock valued statistic
fn filter_time(out: &str) -> String {
    out.lines().filter(|l| !l.to_lowercase().replace('_', "").contains("timespentinsolver")).collect::<Vec<_>>().join("\n")
}

impl Property for ReproProp {
    type Case = ReproCase;
    fn id(&self) -> &'static str {
        "C20"
    }
    fn panics_are_violations(&self) -> bool {
        // a crash yields no output to compare; crashes are judged by C02 / C06 / C10
        false
    }
    fn rule(&self) -> String {
        "(i) library: generated model x configuration run twice on two fresh solvers in one process (different std RandomState keys): the sequence of iterated solutions / optimisation callbacks, the result, the number of polls, decisions and conflicts, and (for proof-logging runs) the bytes of the .drcp and .lits files must be identical; (ii) command line: generated CNF / WCNF / FlatZinc inputs run twice as separate processes with identical flags (-s, -a, -f, --random-seed, --proof-path/--proof-type): stdout and proof files must be byte-identical after removing only the time_spent_in_solver statistic. Non-trivial: the run made >=5 decisions and >=1 conflict, or used a randomised selector, or produced a proof with >=3 steps; distinct by hash of the case.".into()
    }
    fn assumptions(&self) -> Vec<String> {
        vec!["two runs can only refute reproducibility; a dependence which shows with tiny probability can be missed".into(), "-v is never passed (log lines carry timestamps by design)".into()]
    }
    fn strategy(&self, tier: Tier) -> BoxedStrategy<ReproCase> {
        let mut p = GenParams::standard();
        p.min_cons = 1;
        p.space_limit = if tier == Tier::Quick { 2000 } else { 10_000 };
        let pp = p.clone();
        let lib = (raw_model_strategy(&p), raw_config_strategy(), any::<u8>(), (any::<u16>(), -3i8..=3, -3i8..=3), any::<bool>())
            .prop_map(move |((rv, rc), rcfg, path, obj, maximise)| {
                let mut model = build_model(&pp, &rv, &rc);
                let mut cfg = build_config(&rcfg);
                let path = path % 4;
                if path == 2 {
                    cfg.no_learning = false;
                }
                if path == 3 {
                    for c in model.cons.iter_mut() {
                        c.tag = true;
                    }
                }
                let objective = build_objective(&model, &obj);
                ReproCase::Lib { model, cfg, path, objective, maximise }
            })
            .boxed();
        let cnf = (3usize..=12)
            .prop_flat_map(|n| {
                let lit = (1..=n as i32, any::<bool>()).prop_map(|(v, s)| if s { v } else { -v });
                (Just(n), proptest::collection::vec(proptest::collection::vec(lit, 1..=3), n * 3..=n * 5), 0u64..50, any::<bool>())
            })
            .prop_map(|(num_vars, clauses, seed, proof)| ReproCase::Cnf { num_vars, clauses, seed, proof })
            .boxed();
        let wcnf = (2usize..=8)
            .prop_flat_map(|n| {
                let lit = (1..=n as i32, any::<bool>()).prop_map(|(v, s)| if s { v } else { -v });
                (
                    Just(n),
                    proptest::collection::vec(proptest::collection::vec(lit.clone(), 2..=3), 0..=n * 2),
                    proptest::collection::vec((1u32..=6, proptest::collection::vec(lit, 1..=3)), 1..=12),
                    0u64..50,
                )
            })
            .prop_map(|(num_vars, hard, soft, seed)| ReproCase::Wcnf { case: WcnfCase { num_vars, hard, soft, seed, extra_seeds: 0 } })
            .boxed();
        let fzn = (proptest::collection::vec(any::<u16>(), 200..=200), 0u64..50, any::<bool>(), any::<bool>(), 0u8..4)
            .prop_map(|(raw, seed, all, free, proof)| ReproCase::Fzn { model: build_fzn(&raw, 800), seed, all, free, proof })
            .boxed();
        prop_oneof![10 => lib, 1 => cnf, 1 => wcnf, 2 => fzn].boxed()
    }
    fn cases(&self, tier: Tier) -> u64 {
        match tier {
            Tier::Quick => 60_000,
            Tier::Thorough => 1_000_000,
        }
    }
    fn floors(&self, _tier: Tier) -> Vec<(&'static str, f64)> {
        vec![("kind:lib", 0.5), ("kind:cnf", 0.03), ("kind:wcnf", 0.03), ("kind:fzn", 0.06), ("with_proof", 0.05)]
    }
    fn run(&self, case: &ReproCase) -> Verdict {
        let mut out = Outcome::default();
        match case {
            ReproCase::Lib { model, cfg, path, objective, maximise } => {
                out.classes.push("kind:lib".into());
                config_classes(cfg, &mut out.classes);
                let a = lib_run(model, cfg, *path, objective, *maximise);
                let b = lib_run(model, cfg, *path, objective, *maximise);
                if *path == 3 {
                    out.classes.push("with_proof".into());
                }
                if a != b {
                    let what = if a.solutions != b.solutions {
                        "solution-sequence"
                    } else if a.result != b.result {
                        "result"
                    } else if a.proof.as_ref().map(|p| &p.0) != b.proof.as_ref().map(|p| &p.0) {
                        "proof-file"
                    } else if a.proof.as_ref().map(|p| &p.1) != b.proof.as_ref().map(|p| &p.1) {
                        "lits-file"
                    } else {
                        "search-statistics"
                    };
                    let detail = match what {
                        "lits-file" | "proof-file" => {
                            let (x, y) = (a.proof.as_ref().unwrap(), b.proof.as_ref().unwrap());
                            let (x, y) = if what == "lits-file" { (&x.1, &y.1) } else { (&x.0, &y.0) };
                            format!("first run:\n{}\nsecond run:\n{}", truncate(&String::from_utf8_lossy(x)), truncate(&String::from_utf8_lossy(y)))
                        }
                        _ => format!("first run: {:?} polls {} decisions {} conflicts {} solutions {:?}; second run: {:?} polls {} decisions {} conflicts {} solutions {:?}", a.result, a.polls, a.decisions, a.conflicts, a.solutions.len(), b.result, b.polls, b.decisions, b.conflicts, b.solutions.len()),
                    };
                    return Err(Failure::new(format!("repro:lib:{}", what), format!("two runs with the same seed differ in the {what}: {detail}")));
                }
                let randomised = spec_is_dynamic(&cfg.brancher);
                let proof_steps = a.proof.as_ref().map(|p| p.0.iter().filter(|b| **b == b'\n').count()).unwrap_or(0);
                if (a.decisions >= 5 && a.conflicts >= 1) || (randomised && a.decisions >= 2) || proof_steps >= 3 {
                    out.nontrivial = Some(hash_of(case));
                }
                out.observed = Some(json!({"decisions": a.decisions, "conflicts": a.conflicts, "solutions": a.solutions.len(), "proof_lines": proof_steps}));
            }
            _ => {
                // command line: two processes
                let (ext, text, mut args): (&str, String, Vec<String>) = match case {
                    ReproCase::Cnf { num_vars, clauses, seed, .. } => {
                        out.classes.push("kind:cnf".into());
                        ("cnf", render_cnf(*num_vars, clauses, 0), vec!["-s".into(), "--random-seed".into(), seed.to_string()])
                    }
                    ReproCase::Wcnf { case } => {
                        out.classes.push("kind:wcnf".into());
                        ("wcnf", render_wcnf(case).0, vec!["-s".into(), "--random-seed".into(), case.seed.to_string()])
                    }
                    ReproCase::Fzn { model, seed, all, free, .. } => {
                        out.classes.push("kind:fzn".into());
                        let mut a = vec!["-s".to_string(), "--random-seed".into(), seed.to_string()];
                        if *all {
                            a.push("-a".into());
                        }
                        if *free {
                            a.push("-f".into());
                        }
                        ("fzn", model.render(), a)
                    }
                    ReproCase::Lib { .. } => unreachable!(),
                };
                let proof_flag = match case {
                    ReproCase::Cnf { proof, .. } => *proof,
                    ReproCase::Fzn { proof, .. } => *proof > 0,
                    _ => false,
                };
                let input = scratch_file(ext);
                std::fs::write(&input, &text).expect("write input");
                let mut runs = vec![];
                for _ in 0..2 {
                    let proof_path = scratch_file("proof");
                    let mut a = vec![input.to_string_lossy().to_string()];
                    a.append(&mut args.clone());
                    if proof_flag {
                        a.push("--proof-path".into());
                        a.push(proof_path.to_string_lossy().to_string());
                        if let ReproCase::Fzn { proof, .. } = case {
                            a.push("--proof-type".into());
                            a.push(["scaffold", "scaffold", "full", "with-hints"][*proof as usize % 4].into());
                        }
                    }
                    let o = run_cli(&a, Duration::from_secs(20));
                    let lits = proof_path.with_extension("lits");
                    let proof = std::fs::read(&proof_path).unwrap_or_default();
                    let lits_bytes = std::fs::read(&lits).unwrap_or_default();
                    cleanup(&[&proof_path, &lits]);
                    if o.timed_out {
                        out.inconclusive = true;
                        cleanup(&[&input]);
                        return Ok(out);
                    }
                    runs.push((o, proof, lits_bytes));
                }
                args.clear();
                cleanup(&[&input]);
                if proof_flag {
                    out.classes.push("with_proof".into());
                }
                let (a, b) = (&runs[0], &runs[1]);
                if a.0.status != b.0.status || filter_time(&a.0.stdout) != filter_time(&b.0.stdout) {
                    return Err(Failure::new(
                        format!("repro:cli:{}:stdout", ext),
                        format!("two runs differ; first stdout:\n{}\nsecond stdout:\n{}\ninput:\n{}", truncate(&filter_time(&a.0.stdout)), truncate(&filter_time(&b.0.stdout)), truncate(&text)),
                    ));
                }
                if a.1 != b.1 {
                    return Err(Failure::new(format!("repro:cli:{}:proof-file", ext), format!("proof files differ:\n{}\nvs\n{}\ninput:\n{}", truncate(&String::from_utf8_lossy(&a.1)), truncate(&String::from_utf8_lossy(&b.1)), truncate(&text))));
                }
                if a.2 != b.2 {
                    return Err(Failure::new(format!("repro:cli:{}:lits-file", ext), format!("literal definition files differ:\n{}\nvs\n{}\ninput:\n{}", truncate(&String::from_utf8_lossy(&a.2)), truncate(&String::from_utf8_lossy(&b.2)), truncate(&text))));
                }
                out.sub_evals = 1;
                let decisions = a.0.stdout.lines().find(|l| l.contains("num_decisions") || l.contains("numberOfDecisions")).and_then(|l| l.rsplit('=').next()).and_then(|v| v.trim().parse::<u64>().ok()).unwrap_or(0);
                if decisions >= 2 || a.1.iter().filter(|b| **b == b'\n').count() >= 3 {
                    out.nontrivial = Some(hash_of(case));
                }
                out.observed = Some(json!({"kind": ext, "decisions": decisions, "proof_bytes": a.1.len()}));
            }
        }
        Ok(out)
    }
}
