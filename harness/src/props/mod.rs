pub mod branch;
pub mod drcp;
pub mod expl;
pub mod features;
pub mod hist;
pub mod iter;
pub mod opt;
pub mod solve;
