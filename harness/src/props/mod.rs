pub mod expl;
pub mod features;
pub mod iter;
pub mod opt;
pub mod solve;
