pub mod arith;
pub mod branch;
pub mod dimacs;
pub mod drcp;
pub mod expl;
pub mod features;
pub mod fzn;
pub mod hist;
pub mod iter;
pub mod opt;
pub mod proof;
pub mod repro;
pub mod solve;

use crate::runner::Property;

/// A computation which is generic in the property (the command-line driver and the fuzz target use it to
/// go from a property id to its implementation).
pub trait Visitor {
    type Out;
    fn visit<P: Property>(self, prop: &P) -> Self::Out;
}

pub const ALL_IDS: [&str; 20] = ["C01", "C02", "C03", "C04", "C05", "C06", "C07", "C08", "C09", "C10", "C11", "C12", "C13", "C14", "C15", "C16", "C17", "C18", "C19", "C20"];

pub fn dispatch<V: Visitor>(id: &str, v: V) -> Option<V::Out> {
    Some(match id {
        "C01" => v.visit(&solve::SolveProp { id: "C01" }),
        "C02" => v.visit(&solve::SolveProp { id: "C02" }),
        "C03" => v.visit(&iter::IterProp),
        "C04" => v.visit(&opt::OptProp),
        "C05" => v.visit(&opt::AssumpProp),
        "C06" => v.visit(&proof::ProofProp),
        "C07" => v.visit(&iter::MultiProp { id: "C07" }),
        "C08" => v.visit(&iter::MultiProp { id: "C08" }),
        "C09" => v.visit(&iter::MultiProp { id: "C09" }),
        "C10" => v.visit(&hist::HistProp),
        "C11" => v.visit(&hist::StopProp),
        "C12" => v.visit(&opt::BoundsProp),
        "C13" => v.visit(&fzn::FznProp),
        "C14" => v.visit(&dimacs::CnfProp),
        "C15" => v.visit(&dimacs::WcnfProp),
        "C16" => v.visit(&arith::ArithProp),
        "C17" => v.visit(&expl::ExplProp),
        "C18" => v.visit(&branch::BranchProp),
        "C19" => v.visit(&drcp::DrcpProp),
        "C20" => v.visit(&repro::ReproProp),
        _ => return None,
    })
}
