pub mod features;
pub mod solve;
