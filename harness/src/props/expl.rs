//! C17: every explanation given by a propagator follows from its constraint.
//! Channel B of the design: the tap (hook H1) records every propagation, every reported conflict and
//! every reason recomputed during conflict analysis of real searches; each record is judged by
//! brute force against the meaning of the constraint which owns the tag.
use std::collections::{HashMap, HashSet};

use proptest::prelude::*;
use pumpkin_solver::predicates::Predicate;
use pumpkin_solver::verif_hooks::{self, Kind, Record};
use serde::{Deserialize, Serialize};
use serde_json::json;

use crate::adapter::*;
use crate::gen::*;
use crate::ir::*;
use crate::ops::*;
use crate::props::solve::{config_classes, model_classes};
use crate::runner::*;
use crate::sem;

#[derive(Clone, Debug, Serialize, Deserialize)]
pub struct ExplCase {
    pub model: Model,
    pub cfg: Config,
    /// 0: iterate all solutions, 1: optimise SAT-UNSAT, 2: optimise UNSAT-SAT
    pub path: u8,
    pub objective: Term,
    pub maximise: bool,
}

pub struct ExplProp;

fn fmt_preds(b: &Built, ps: &[Predicate]) -> String {
    format!("{:?}", ps.iter().map(|p| b.unpred(*p)).collect::<Vec<_>>())
}

/// enumerate all assignments of `vars` (indices) over the declared domains; `f` returns false to stop
fn for_all(m: &Model, vars: &[usize], base: &mut Vec<i32>, f: &mut dyn FnMut(&[i32]) -> bool) -> bool {
    fn rec(m: &Model, vars: &[usize], k: usize, a: &mut Vec<i32>, f: &mut dyn FnMut(&[i32]) -> bool) -> bool {
        if k == vars.len() {
            return f(a);
        }
        for v in m.vars[vars[k]].values() {
            a[vars[k]] = v;
            if !rec(m, vars, k + 1, a, f) {
                return false;
            }
        }
        true
    }
    rec(m, vars, 0, base, f)
}

pub struct Judge<'a> {
    pub m: &'a Model,
    pub b: &'a Built,
    /// solutions of the model which are not excluded by clauses added so far (for untagged records)
    pub live: Vec<Vec<i32>>,
    cache: HashSet<(Option<u32>, Vec<Pred>, Option<Pred>)>,
    pub checked: u64,
    pub by_family: HashMap<String, u64>,
}

impl<'a> Judge<'a> {
    pub fn new(m: &'a Model, b: &'a Built, live: Vec<Vec<i32>>) -> Self {
        Judge { m, b, live, cache: HashSet::new(), checked: 0, by_family: HashMap::new() }
    }

    pub fn judge(&mut self, r: &Record) -> Result<(), Failure> {
        let b = self.b;
        let m = self.m;
        let what = format!("{:?} of {} (tag {:?}) at level {}", r.kind, r.propagator, r.tag, r.decision_level);
        // predicates over the dummy variable / unknown variables cannot be judged
        let mut reason: Vec<Pred> = vec![];
        for p in &r.reason {
            if p.get_domain().id == 0 {
                // trivially true/false predicate over the dummy domain
                if *p == Predicate::trivially_false() {
                    return Err(Failure::new(format!("expl:false-in-reason:{}", r.propagator), format!("{what}: reason contains the trivially false predicate")));
                }
                continue;
            }
            match b.unpred(*p) {
                Some(q) => reason.push(q),
                None => return Ok(()),
            }
        }
        let propagated = match r.propagated {
            Some(p) if p.get_domain().id == 0 => return Ok(()),
            Some(p) => match b.unpred(p) {
                Some(q) => Some(q),
                None => return Ok(()),
            },
            None => None,
        };
        // (2) truth in the state in which the reason is given
        let is_nogood_propagation = r.kind == Kind::Propagation && r.propagator == "NogoodPropagator";
        if !is_nogood_propagation {
            for (p, pos) in r.reason.iter().zip(&r.reason_positions) {
                if p.get_domain().id == 0 {
                    continue;
                }
                if r.emptied_domain && r.propagated.map(|q| q.get_domain()) == Some(p.get_domain()) {
                    // the domain is empty in the recorded state: nothing over it can be evaluated
                    continue;
                }
                match pos {
                    None => {
                        return Err(Failure::new(
                            format!("expl:reason-not-true:{}", r.propagator),
                            format!("{what}: reason {} -> {:?}: predicate {:?} does not hold in the state in which the reason is given", fmt_preds(b, &r.reason), propagated, b.unpred(*p)),
                        ))
                    }
                    Some(pos) => {
                        if r.kind != Kind::Conflict && *pos >= r.position {
                            return Err(Failure::new(
                                format!("expl:reason-not-before:{}", r.propagator),
                                format!("{what}: reason {} -> {:?}: predicate {:?} became true at trail position {} which is not before the explained entry at {}", fmt_preds(b, &r.reason), propagated, b.unpred(*p), pos, r.position),
                            ));
                        }
                    }
                }
            }
        }
        if is_nogood_propagation {
            // the reason is not computed at propagation time for the nogood propagator
            return Ok(());
        }
        let mut key_reason = reason.clone();
        key_reason.sort_by_key(|p| (p.var, p.kind as u8, p.val));
        if !self.cache.insert((r.tag, key_reason, propagated)) {
            return Ok(());
        }
        self.checked += 1;
        *self.by_family.entry(format!("{}:{:?}", r.propagator, r.kind)).or_default() += 1;
        // (1) sufficiency
        match r.tag {
            Some(tag) if (tag as usize) <= m.cons.len() && r.propagator != "NogoodPropagator" => {
                let c = &m.cons[tag as usize - 1];
                let mut vars = c.vars();
                vars.extend(reason.iter().map(|p| p.var));
                if let Some(p) = &propagated {
                    vars.push(p.var);
                }
                vars.sort_unstable();
                vars.dedup();
                let space: u128 = vars.iter().map(|v| m.vars[*v].size() as u128).product();
                if space > 3_000_000 {
                    return Ok(());
                }
                let mut base: Vec<i32> = m.vars.iter().map(|d| d.lb()).collect();
                let mut witness: Option<Vec<i32>> = None;
                let _ = for_all(m, &vars, &mut base, &mut |a| {
                    if reason.iter().all(|p| p.holds(a[p.var] as i64)) && sem::holds_posted(c, a) {
                        let ok = match &propagated {
                            Some(p) => p.holds(a[p.var] as i64),
                            None => false,
                        };
                        if !ok {
                            witness = Some(vars.iter().map(|v| a[*v]).collect());
                            return false;
                        }
                    }
                    true
                });
                if let Some(w) = witness {
                    return Err(Failure::new(
                        format!("expl:insufficient:{}", r.propagator),
                        format!(
                            "{what}: the reason {:?} does not imply {} for constraint #{} {:?}: variables {:?} = {:?} satisfy the constraint and the reason",
                            reason,
                            propagated.map(|p| format!("{:?}", p)).unwrap_or("false (conflict)".into()),
                            tag - 1,
                            c,
                            vars,
                            w
                        ),
                    ));
                }
            }
            _ => {
                // untagged: nogood propagator (clauses, learned nogoods, blocking clauses, objective
                // cuts) or an untagged constraint: judged against the live solutions of the model
                if r.propagator != "NogoodPropagator" {
                    return Ok(());
                }
                if let Some(s) = self.live.iter().find(|s| {
                    reason.iter().all(|p| p.holds(s[p.var] as i64)) && !propagated.map(|p| p.holds(s[p.var] as i64)).unwrap_or(false)
                }) {
                    return Err(Failure::new(
                        "expl:nogood-not-implied",
                        format!("{what}: nogood reason {:?} -> {:?} is violated by the solution {:?}", reason, propagated, s),
                    ));
                }
            }
        }
        Ok(())
    }
}

impl Property for ExplProp {
    type Case = ExplCase;
    fn id(&self) -> &'static str {
        "C17"
    }
    fn rule(&self) -> String {
        "generated models (one in five a scheduling model with up to six tasks of duration up to 5) with every constraint tagged, searched (iteration of all solutions, or optimisation) under generated configurations with the explanation tap enabled; every record (propagation at propagation time, conflict reported by a propagator, reason recomputed during conflict analysis) is judged: (1) brute force over the declared domains of the constraint's scope and the reason's variables: constraint /\\ reason => propagated (or no assignment for a conflict); nogood-propagator reasons are judged against the solutions of the model not yet excluded by blocking clauses / objective cuts; (2) every reason predicate holds in the state, strictly before the explained trail entry. Non-trivial: a case with >=1 record with a non-empty reason at decision level >=1; distinct by (propagator, record kind, reason shape, predicate kind) within a case and by model hash across cases.".into()
    }
    fn assumptions(&self) -> Vec<String> {
        vec![
            "hook H1 (cfg pumpkin_verif) reports what the propagators hand to the solver".into(),
            "explanations are required to be valid over the declared domains (as DRCP inference steps are)".into(),
        ]
    }
    fn strategy(&self, tier: Tier) -> BoxedStrategy<ExplCase> {
        let mut p = GenParams::standard();
        p.min_cons = 1;
        p.max_cons = 5;
        p.mode_permille = 150;
        p.space_limit = if tier == Tier::Quick { 1500 } else { 8000 };
        // over-represent propagators with intricate explanations
        p.kinds = ALL_KINDS
            .iter()
            .map(|k| (*k, match k {
                K::Element | K::Cumulative | K::Times | K::Div | K::Max | K::Min | K::Abs => 5,
                K::Clause | K::Conj | K::PredClause | K::ViewClause => 1,
                _ => 3,
            }))
            .collect();
        let pp = p.clone();
        // one case in five is a scheduling model: up to six tasks with durations up to 5 (long profiles, holes
        // in front of and inside them), about half of the start variables nearly fixed, a few side constraints
        let mut pp_cum = p.clone();
        pp_cum.kinds = vec![(K::Cumulative, 10), (K::BinLe, 2), (K::BinNe, 2), (K::LinLe, 1)];
        pp_cum.max_cons = 3;
        pp_cum.max_tasks = 6;
        pp_cum.max_dur = 5;
        pp_cum.small_dom_permille = 550;
        pp_cum.max_dom = 7;
        pp_cum.pred_literals = false;
        (raw_model_strategy(&p), raw_config_strategy(), any::<u8>(), (any::<u16>(), -3i8..=3, -3i8..=3), any::<bool>())
            .prop_map(move |((rv, rc), rcfg, path, obj, maximise)| {
                let mut model = if (path / 5) % 5 == 4 { build_model(&pp_cum, &rv, &rc) } else { build_model(&pp, &rv, &rc) };
                for c in model.cons.iter_mut() {
                    c.tag = true;
                }
                let mut cfg = build_config(&rcfg);
                let path = [0u8, 0, 0, 1, 2][path as usize % 5];
                if cfg.no_learning && path == 2 {
                    cfg.no_learning = false;
                }
                let objective = crate::props::solve::build_objective(&model, &obj);
                ExplCase { model, cfg, path, objective, maximise }
            })
            .boxed()
    }
    fn cases(&self, tier: Tier) -> u64 {
        match tier {
            Tier::Quick => 1_200_000,
            Tier::Thorough => 12_000_000,
        }
    }
    fn floors(&self, _tier: Tier) -> Vec<(&'static str, f64)> {
        vec![("records:deep", 0.2)]
    }
    fn feature(&self, case: &ExplCase, name: &str) -> bool {
        crate::props::features::model_feature(&case.model, name)
    }
    fn run(&self, case: &ExplCase) -> Verdict {
        let m = &case.model;
        let mut out = Outcome::default();
        model_classes(m, &mut out.classes);
        config_classes(&case.cfg, &mut out.classes);
        let sols = sem::solutions(m, 5_000_000).expect("harness: enumeration limit");
        verif_hooks::enable(400_000);
        let mut b = Built::from_model(m, &case.cfg, None);
        let (records, _) = verif_hooks::drain();
        let mut all_records: Vec<(Vec<Record>, Vec<Vec<i32>>)> = vec![(records, sols.clone())];
        let mut dropped_total = 0;
        if !b.infeasible_at_post() {
            let mut br = b.brancher(&case.cfg.brancher);
            let mut t = CountingTermination::budget(60_000);
            match case.path {
                0 => {
                    let doms = b.doms.clone();
                    let mut live = sols.clone();
                    let mut it = b.solver.get_solution_iterator(&mut br, &mut t);
                    let mut n = 0;
                    loop {
                        use pumpkin_solver::results::solution_iterator::IteratedSolution;
                        use pumpkin_solver::results::ProblemSolution;
                        let r = it.next_solution();
                        let (recs, dropped) = verif_hooks::drain();
                        dropped_total += dropped;
                        all_records.push((recs, live.clone()));
                        match r {
                            IteratedSolution::Solution(s, _, _) => {
                                let a: Vec<i32> = doms.iter().map(|d| s.get_integer_value(*d)).collect();
                                live.retain(|x| *x != a);
                                n += 1;
                                if n >= 40 {
                                    break;
                                }
                            }
                            _ => break,
                        }
                    }
                }
                _ => {
                    // objective cuts are consequences of "better than the incumbent": judge nogoods only
                    // against solutions which are at least as good as the final result
                    let (r, _) = optimise(&mut b, &mut br, &mut t, case.path == 1, case.maximise, &case.objective);
                    let (recs, dropped) = verif_hooks::drain();
                    dropped_total += dropped;
                    let live = match r {
                        OptRes::Optimal(_) => vec![],
                        OptRes::Satisfiable(a) => {
                            let v = sem::tv(&case.objective, &a);
                            sols.iter().filter(|s| if case.maximise { sem::tv(&case.objective, s) > v } else { sem::tv(&case.objective, s) < v }).cloned().collect()
                        }
                        _ => vec![],
                    };
                    all_records.push((recs, live));
                }
            }
            out.inconclusive = t.exhausted;
        }
        verif_hooks::disable();
        let mut judge = Judge::new(m, &b, sols.clone());
        let mut deep = false;
        let mut total = 0u64;
        for (recs, live) in &all_records {
            judge.live = live.clone();
            for r in recs {
                total += 1;
                if r.decision_level >= 1 && !r.reason.is_empty() {
                    deep = true;
                }
                judge.judge(r)?;
            }
        }
        out.counters.push(("records".into(), total));
        out.counters.push(("records_checked_distinct".into(), judge.checked));
        out.counters.push(("records_dropped".into(), dropped_total));
        for (k, v) in &judge.by_family {
            out.counters.push((format!("family:{}", k), *v));
        }
        if deep {
            out.classes.push("records:deep".into());
            out.nontrivial = Some(hash_of(&(m, case.path)));
        }
        out.observed = Some(json!({"records": total, "distinct_checked": judge.checked}));
        Ok(out)
    }
}
