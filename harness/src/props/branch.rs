//! C18: built-in branchers propose only undecided decisions over their variables, propose nothing
//! only when everything is fixed, and searches driven by them finish.
use proptest::prelude::*;
use serde::{Deserialize, Serialize};
use serde_json::json;

use crate::adapter::*;
use crate::gen::*;
use crate::ir::*;
use crate::ops::*;
use crate::props::solve::model_classes;
use crate::runner::*;
use crate::sem;

#[derive(Clone, Debug, Serialize, Deserialize)]
pub struct BranchCase {
    pub model: Model,
    pub cfg: Config,
    /// interrupt the first solve at this poll and reuse the brancher afterwards
    pub interrupt_at: Option<u64>,
    /// number of solutions to iterate with the same brancher
    pub iterate: usize,
}

pub struct BranchProp;

fn spec_name(s: &BrSpec) -> String {
    match s {
        BrSpec::Default => "default".into(),
        BrSpec::Indep(sel) => format!("{}x{}", VS_NAMES[sel.vs as usize], VL_NAMES[sel.vl as usize]),
        BrSpec::Dynamic { .. } => "dynamic".into(),
        BrSpec::Alternating { strategy, .. } => format!("alternating{}", strategy % 4),
        BrSpec::AutoCustom(_) => "autonomous_custom".into(),
    }
}

fn grid_models() -> Vec<Model> {
    let t = Term::plain;
    vec![
        // holes, negative values, size-2 domains, a root-fixed variable; needs search with backtracks
        Model {
            vars: vec![
                VarDecl::Sparse { values: vec![-4, -1, 0, 3, 7] },
                VarDecl::Interval { lb: -2, ub: -1 },
                VarDecl::Interval { lb: 0, ub: 4 },
                VarDecl::Bool,
                VarDecl::Interval { lb: 5, ub: 5 },
                VarDecl::Sparse { values: vec![1, 2, 6] },
            ],
            cons: vec![
                Posted::plain(Cons::AllDiff { xs: vec![t(0), t(2), t(5)] }),
                Posted::plain(Cons::LinNe { terms: vec![t(0), t(1), t(2)], rhs: 2 }),
                Posted::plain(Cons::LinLe { terms: vec![t(2), t(5), Term { var: 0, scale: -1, offset: 0 }], rhs: 3 }),
                Posted::plain(Cons::Times { a: t(1), b: t(3), c: Term { var: 2, scale: -1, offset: 2 } }),
            ],
        },
        // pigeon-hole like: unsatisfiable, many conflicts
        Model {
            vars: vec![VarDecl::Interval { lb: 0, ub: 2 }, VarDecl::Interval { lb: 0, ub: 2 }, VarDecl::Sparse { values: vec![0, 2] }, VarDecl::Interval { lb: 1, ub: 2 }],
            cons: vec![Posted::plain(Cons::AllDiff { xs: vec![t(0), t(1), t(2), t(3)] })],
        },
    ]
}

impl Property for BranchProp {
    type Case = BranchCase;
    fn id(&self) -> &'static str {
        "C18"
    }
    fn rule(&self) -> String {
        "a wrapping brancher (hook H2 makes synchronise forwardable) observes every next_decision of real searches: each proposed predicate must be unassigned and over one of the brancher's variables, None is only allowed when all of them are fixed, every returned solution assigns every variable, and the search finishes within the poll budget. Fixed grid (exhaustive): all 10 variable selectors x 14 value selectors x {in-order, random tie-breaking} x {static, dynamic wrappers} on two models with holes/negative values/size-2 domains/a root-fixed variable, under {default, restart after every conflict, NoLearning}; plus generated models x generated brancher specifications (DynamicBrancher over partitions, AlternatingBrancher x 4 strategies, AutonomousSearch with custom backup, default) x generated configurations, with the brancher reused after an interrupted solve and across iterated solutions. Non-trivial: >=1 backtrack and >=5 decisions on a model with a hole or a size-2 domain; distinct by hash of (model, brancher spec, configuration).".into()
    }
    fn assumptions(&self) -> Vec<String> {
        vec!["hook H2 re-exports Assignments so that the observing wrapper can forward Brancher::synchronise unchanged".into()]
    }
    fn extra_coverage(&self, _tier: Tier) -> Vec<(String, serde_json::Value)> {
        vec![("selector_grid_exhaustive".into(), json!(true))]
    }
    fn fixed_cases(&self, _tier: Tier) -> Vec<BranchCase> {
        let mut out = vec![];
        let mut restart_always = Config::default_cfg();
        restart_always.restart = special_configs()[2].restart.clone();
        let mut no_learning = Config::default_cfg();
        no_learning.no_learning = true;
        for model in grid_models() {
            for base in [Config::default_cfg(), restart_always.clone(), no_learning.clone()] {
                for vs in 0..NUM_VS {
                    for vl in 0..NUM_VL {
                        for tie_random in [false, true] {
                            for dynamic in [false, true] {
                                let mut cfg = base.clone();
                                cfg.brancher = BrSpec::Indep(Sel { vs, vl, tie_random, dynamic });
                                out.push(BranchCase { model: model.clone(), cfg, interrupt_at: if (vs + vl) % 3 == 0 { Some(2) } else { None }, iterate: 4 });
                            }
                        }
                    }
                }
            }
        }
        out
    }
    fn strategy(&self, tier: Tier) -> BoxedStrategy<BranchCase> {
        let mut p = GenParams::standard();
        p.min_cons = 1;
        p.min_vars = 2;
        p.space_limit = if tier == Tier::Quick { 3000 } else { 20_000 };
        let pp = p.clone();
        (raw_model_strategy(&p), raw_config_strategy(), any::<u8>(), any::<u8>())
            .prop_map(move |((rv, rc), rcfg, k, it)| {
                let model = build_model(&pp, &rv, &rc);
                let cfg = build_config(&rcfg);
                BranchCase { model, cfg, interrupt_at: if k % 3 == 0 { Some((k / 3) as u64 % 12) } else { None }, iterate: (it % 6) as usize }
            })
            .boxed()
    }
    fn cases(&self, tier: Tier) -> u64 {
        match tier {
            Tier::Quick => 1_500_000,
            Tier::Thorough => 15_000_000,
        }
    }
    fn floors(&self, _tier: Tier) -> Vec<(&'static str, f64)> {
        vec![("searched", 0.3), ("reused_after_interrupt", 0.05)]
    }
    fn feature(&self, case: &BranchCase, name: &str) -> bool {
        crate::props::features::model_feature(&case.model, name)
    }
    fn run(&self, case: &BranchCase) -> Verdict {
        let m = &case.model;
        let mut out = Outcome::default();
        model_classes(m, &mut out.classes);
        let name = spec_name(&case.cfg.brancher);
        out.classes.push(format!("br:{}", name));
        let mut b = Built::from_model(m, &case.cfg, None);
        if b.infeasible_at_post() {
            return Ok(out);
        }
        let mut br = b.brancher(&case.cfg.brancher);
        br.check = true;
        let verdict = |br: &ObsBrancher, what: &str| -> Result<(), Failure> {
            if let Some(x) = br.stats.assigned_decisions.first() {
                return Err(Failure::new(format!("branch:assigned-decision:{}", name), format!("[{what}] brancher {:?}: {}", case.cfg.brancher, x)));
            }
            if let Some(x) = br.stats.foreign_decisions.first() {
                return Err(Failure::new(format!("branch:foreign-decision:{}", name), format!("[{what}] brancher {:?}: {}", case.cfg.brancher, x)));
            }
            if let Some(x) = br.stats.premature_none.first() {
                return Err(Failure::new(format!("branch:premature-none:{}", name), format!("[{what}] brancher {:?}: {}", case.cfg.brancher, x)));
            }
            Ok(())
        };
        if let Some(k) = case.interrupt_at {
            let mut t = CountingTermination::stop_at(k, 1_000_000);
            let r = satisfy(&mut b, &mut br, &mut t);
            verdict(&br, "interrupted solve")?;
            if t.fired && r == SatRes::Unknown {
                out.classes.push("reused_after_interrupt".into());
            }
        }
        let mut t = CountingTermination::budget(BUDGET);
        let (got, end) = iterate(&mut b, &mut br, &mut t, case.iterate.max(1));
        verdict(&br, "iteration")?;
        for a in &got {
            if let Some(why) = sem::first_violation(m, a) {
                out.notes.push(format!("NOTE property=C01 {}", why));
            }
        }
        if end == IterEnd::Unknown {
            if t.exhausted {
                // search did not finish within the budget: inconclusive (never a violation)
                out.inconclusive = true;
            } else {
                return Err(Failure::new("branch:unknown-without-stop", "Unknown although the termination never fired"));
            }
        }
        if br.stats.decisions > 0 {
            out.classes.push("searched".into());
        }
        let interesting_domains = m.vars.iter().any(|v| v.has_holes() || v.size() == 2);
        if br.stats.backtracks >= 1 && br.stats.decisions >= 5 && interesting_domains {
            out.nontrivial = Some(hash_of(&(m, &case.cfg)));
        }
        out.counters.push(("decisions_checked".into(), br.stats.decisions));
        out.observed = Some(json!({"brancher": name, "decisions": br.stats.decisions, "backtracks": br.stats.backtracks, "restarts": br.stats.restarts, "solutions": got.len()}));
        Ok(out)
    }
}
