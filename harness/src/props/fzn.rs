//! C13: FlatZinc models are solved according to FlatZinc semantics (through the real binary).
use std::collections::{BTreeMap, BTreeSet};
use std::time::Duration;

use proptest::prelude::*;
use serde::{Deserialize, Serialize};
use serde_json::json;

use crate::cli::*;
use crate::ir::hash_of;
use crate::props::dimacs::{first_error_kind, truncate};
use crate::runner::*;

// ------------------------------------------------------------------------------------------
// IR

#[derive(Clone, Debug, Serialize, Deserialize, Hash, PartialEq, Eq)]
pub enum FTy {
    Bool,
    Range { lb: i32, ub: i32 },
    Set { values: Vec<i32> },
}

#[derive(Clone, Debug, Serialize, Deserialize, Hash, PartialEq, Eq)]
pub enum FInit {
    None,
    Int(i32),
    Bool(bool),
    /// alias of an earlier variable of the same type
    Var(usize),
    ParInt(usize),
    ParBool(usize),
}

#[derive(Clone, Debug, Serialize, Deserialize, Hash, PartialEq, Eq)]
pub struct FVar {
    pub ty: FTy,
    pub init: FInit,
    pub output: bool,
}

#[derive(Clone, Debug, Serialize, Deserialize, Hash, PartialEq, Eq)]
pub enum FParam {
    Int(i32),
    Bool(bool),
    IntArray(Vec<i32>),
    BoolArray(Vec<bool>),
    SetRange(i32, i32),
    SetLit(Vec<i32>),
}

/// integer expression: variable (int typed), literal or int parameter
#[derive(Clone, Copy, Debug, Serialize, Deserialize, Hash, PartialEq, Eq)]
pub enum IE {
    Var(usize),
    Lit(i32),
    Par(usize),
}

#[derive(Clone, Copy, Debug, Serialize, Deserialize, Hash, PartialEq, Eq)]
pub enum BE {
    Var(usize),
    Lit(bool),
    Par(usize),
}

#[derive(Clone, Debug, Serialize, Deserialize, Hash, PartialEq, Eq)]
pub enum IArr {
    Named(usize),
    Lits(Vec<IE>),
    Par(usize),
}

#[derive(Clone, Debug, Serialize, Deserialize, Hash, PartialEq, Eq)]
pub enum BArr {
    Named(usize),
    Lits(Vec<BE>),
    Par(usize),
}

#[derive(Clone, Debug, Serialize, Deserialize, Hash, PartialEq, Eq)]
pub enum CArr {
    Lits(Vec<i32>),
    Par(usize),
}

#[derive(Clone, Debug, Serialize, Deserialize, Hash, PartialEq, Eq)]
pub enum SetE {
    Range(i32, i32),
    Lits(Vec<i32>),
    Par(usize),
}

#[derive(Clone, Debug, Serialize, Deserialize, Hash, PartialEq, Eq)]
pub struct FVarArray {
    pub is_bool: bool,
    pub ints: Vec<IE>,
    pub bools: Vec<BE>,
    pub output: bool,
}

#[derive(Clone, Debug, Serialize, Deserialize, Hash, PartialEq, Eq)]
pub enum FCons {
    /// op: "eq" | "le" | "ne"
    IntLin { op: String, ws: CArr, xs: IArr, rhs: IE, reif: Option<BE> },
    /// op: "eq" | "ne" | "le" | "lt"
    IntBin { op: String, a: IE, b: IE, reif: Option<BE> },
    /// op: "plus" | "times" | "div" | "max" | "min"
    IntTern { op: String, a: IE, b: IE, c: IE },
    IntAbs { a: IE, b: IE },
    ArrMax { m: IE, xs: IArr },
    ArrMin { m: IE, xs: IArr },
    /// array_int_element (constant array) or array_var_int_element
    IntElement { var_array: bool, idx: IE, arr: IArr, rhs: IE },
    BoolElement { var_array: bool, idx: IE, arr: BArr, rhs: BE },
    AllDiff { xs: IArr },
    Cumulative { s: IArr, d: CArr, r: CArr, b: IE },
    Bool2Int { b: BE, i: IE },
    BoolAnd { a: BE, b: BE, r: BE },
    BoolEq { a: BE, b: BE, reif: Option<BE> },
    BoolNot { a: BE, b: BE },
    BoolClause { pos: BArr, neg: BArr },
    ArrBoolAnd { xs: BArr, r: BE },
    ArrBoolOr { xs: BArr, r: BE },
    BoolXor { a: BE, b: BE, reif: Option<BE> },
    BoolLinEq { ws: CArr, xs: BArr, c: IE },
    BoolLinLe { ws: CArr, xs: BArr, c: IE },
    SetIn { x: IE, s: SetE, reif: Option<BE> },
}

impl FCons {
    pub fn name(&self) -> String {
        match self {
            FCons::IntLin { op, reif, .. } => format!("int_lin_{}{}", op, if reif.is_some() { "_reif" } else { "" }),
            FCons::IntBin { op, reif, .. } => format!("int_{}{}", op, if reif.is_some() { "_reif" } else { "" }),
            FCons::IntTern { op, .. } => format!("int_{}", op),
            FCons::IntAbs { .. } => "int_abs".into(),
            FCons::ArrMax { .. } => "array_int_maximum".into(),
            FCons::ArrMin { .. } => "array_int_minimum".into(),
            FCons::IntElement { var_array, .. } => if *var_array { "array_var_int_element" } else { "array_int_element" }.into(),
            FCons::BoolElement { var_array, .. } => if *var_array { "array_var_bool_element" } else { "array_bool_element" }.into(),
            FCons::AllDiff { .. } => "pumpkin_all_different".into(),
            FCons::Cumulative { .. } => "pumpkin_cumulative".into(),
            FCons::Bool2Int { .. } => "bool2int".into(),
            FCons::BoolAnd { .. } => "bool_and".into(),
            FCons::BoolEq { reif, .. } => if reif.is_some() { "bool_eq_reif" } else { "bool_eq" }.into(),
            FCons::BoolNot { .. } => "bool_not".into(),
            FCons::BoolClause { .. } => "bool_clause".into(),
            FCons::ArrBoolAnd { .. } => "array_bool_and".into(),
            FCons::ArrBoolOr { .. } => "array_bool_or".into(),
            FCons::BoolXor { reif, .. } => if reif.is_some() { "pumpkin_bool_xor_reif" } else { "pumpkin_bool_xor" }.into(),
            FCons::BoolLinEq { .. } => "bool_lin_eq".into(),
            FCons::BoolLinLe { .. } => "bool_lin_le".into(),
            FCons::SetIn { reif, .. } => if reif.is_some() { "set_in_reif" } else { "set_in" }.into(),
        }
    }
}

#[derive(Clone, Debug, Serialize, Deserialize, Hash, PartialEq, Eq)]
pub enum Goal {
    Satisfy,
    Min(usize),
    Max(usize),
}

#[derive(Clone, Debug, Serialize, Deserialize, Hash, PartialEq, Eq)]
pub enum SearchAnn {
    Int { vars: Vec<usize>, varsel: String, valsel: String },
    Bool { vars: Vec<usize>, varsel: String, valsel: String },
    Seq(Vec<SearchAnn>),
}

#[derive(Clone, Debug, Serialize, Deserialize, Hash, PartialEq, Eq)]
pub struct FznModel {
    pub params: Vec<FParam>,
    pub vars: Vec<FVar>,
    pub arrays: Vec<FVarArray>,
    pub cons: Vec<FCons>,
    pub goal: Goal,
    pub search: Option<SearchAnn>,
}

#[derive(Clone, Debug, Serialize, Deserialize, Hash)]
pub struct FznCase {
    pub model: FznModel,
    pub all_solutions: bool,
    pub free_search: bool,
    pub lus: bool,
    pub seed: u64,
}

// ------------------------------------------------------------------------------------------
// semantics

impl FznModel {
    fn ie(&self, e: &IE, a: &[i32]) -> i64 {
        match e {
            IE::Var(i) => a[*i] as i64,
            IE::Lit(c) => *c as i64,
            IE::Par(p) => match &self.params[*p] {
                FParam::Int(c) => *c as i64,
                _ => panic!("harness: not an int parameter"),
            },
        }
    }
    fn be(&self, e: &BE, a: &[i32]) -> bool {
        match e {
            BE::Var(i) => a[*i] != 0,
            BE::Lit(c) => *c,
            BE::Par(p) => match &self.params[*p] {
                FParam::Bool(c) => *c,
                _ => panic!("harness: not a bool parameter"),
            },
        }
    }
    fn iarr(&self, e: &IArr, a: &[i32]) -> Vec<i64> {
        match e {
            IArr::Named(i) => self.arrays[*i].ints.iter().map(|x| self.ie(x, a)).collect(),
            IArr::Lits(v) => v.iter().map(|x| self.ie(x, a)).collect(),
            IArr::Par(p) => match &self.params[*p] {
                FParam::IntArray(v) => v.iter().map(|x| *x as i64).collect(),
                _ => panic!("harness: not an int array parameter"),
            },
        }
    }
    fn barr(&self, e: &BArr, a: &[i32]) -> Vec<bool> {
        match e {
            BArr::Named(i) => self.arrays[*i].bools.iter().map(|x| self.be(x, a)).collect(),
            BArr::Lits(v) => v.iter().map(|x| self.be(x, a)).collect(),
            BArr::Par(p) => match &self.params[*p] {
                FParam::BoolArray(v) => v.clone(),
                _ => panic!("harness: not a bool array parameter"),
            },
        }
    }
    fn carr(&self, e: &CArr) -> Vec<i64> {
        match e {
            CArr::Lits(v) => v.iter().map(|x| *x as i64).collect(),
            CArr::Par(p) => match &self.params[*p] {
                FParam::IntArray(v) => v.iter().map(|x| *x as i64).collect(),
                _ => panic!("harness: not an int array parameter"),
            },
        }
    }
    fn set_contains(&self, s: &SetE, v: i64) -> bool {
        match s {
            SetE::Range(lb, ub) => v >= *lb as i64 && v <= *ub as i64,
            SetE::Lits(vals) => vals.iter().any(|x| *x as i64 == v),
            SetE::Par(p) => match &self.params[*p] {
                FParam::SetRange(lb, ub) => v >= *lb as i64 && v <= *ub as i64,
                FParam::SetLit(vals) => vals.iter().any(|x| *x as i64 == v),
                _ => panic!("harness: not a set parameter"),
            },
        }
    }

    /// standard meaning of the builtins (FlatZinc specification / minizinc/lib of the repository)
    pub fn holds(&self, c: &FCons, a: &[i32]) -> bool {
        let reified = |reif: &Option<BE>, v: bool| match reif {
            None => v,
            Some(r) => self.be(r, a) == v,
        };
        match c {
            FCons::IntLin { op, ws, xs, rhs, reif } => {
                let lhs: i64 = self.carr(ws).iter().zip(self.iarr(xs, a)).map(|(w, x)| w * x).sum();
                let r = self.ie(rhs, a);
                reified(reif, match op.as_str() {
                    "eq" => lhs == r,
                    "le" => lhs <= r,
                    _ => lhs != r,
                })
            }
            FCons::IntBin { op, a: x, b, reif } => {
                let (x, y) = (self.ie(x, a), self.ie(b, a));
                reified(reif, match op.as_str() {
                    "eq" => x == y,
                    "ne" => x != y,
                    "le" => x <= y,
                    _ => x < y,
                })
            }
            FCons::IntTern { op, a: x, b, c } => {
                let (x, y, z) = (self.ie(x, a), self.ie(b, a), self.ie(c, a));
                match op.as_str() {
                    "plus" => x + y == z,
                    "times" => x * y == z,
                    "div" => y != 0 && x / y == z,
                    "max" => x.max(y) == z,
                    _ => x.min(y) == z,
                }
            }
            FCons::IntAbs { a: x, b } => self.ie(x, a).abs() == self.ie(b, a),
            FCons::ArrMax { m, xs } => self.iarr(xs, a).iter().max().is_some_and(|v| *v == self.ie(m, a)),
            FCons::ArrMin { m, xs } => self.iarr(xs, a).iter().min().is_some_and(|v| *v == self.ie(m, a)),
            FCons::IntElement { idx, arr, rhs, .. } => {
                let i = self.ie(idx, a);
                let arr = self.iarr(arr, a);
                i >= 1 && i <= arr.len() as i64 && arr[i as usize - 1] == self.ie(rhs, a)
            }
            FCons::BoolElement { idx, arr, rhs, .. } => {
                let i = self.ie(idx, a);
                let arr = self.barr(arr, a);
                i >= 1 && i <= arr.len() as i64 && arr[i as usize - 1] == self.be(rhs, a)
            }
            FCons::AllDiff { xs } => {
                let v = self.iarr(xs, a);
                (0..v.len()).all(|i| (i + 1..v.len()).all(|j| v[i] != v[j]))
            }
            FCons::Cumulative { s, d, r, b } => {
                let (s, d, r, cap) = (self.iarr(s, a), self.carr(d), self.carr(r), self.ie(b, a));
                (0..s.len()).all(|i| {
                    if d[i] <= 0 {
                        return true;
                    }
                    let t = s[i];
                    let load: i64 = (0..s.len()).filter(|j| d[*j] > 0 && s[*j] <= t && t < s[*j] + d[*j]).map(|j| r[j]).sum();
                    load <= cap
                })
            }
            FCons::Bool2Int { b, i } => self.be(b, a) as i64 == self.ie(i, a),
            FCons::BoolAnd { a: x, b, r } => self.be(r, a) == (self.be(x, a) && self.be(b, a)),
            FCons::BoolEq { a: x, b, reif } => reified(reif, self.be(x, a) == self.be(b, a)),
            FCons::BoolNot { a: x, b } => self.be(x, a) != self.be(b, a),
            FCons::BoolClause { pos, neg } => self.barr(pos, a).iter().any(|v| *v) || self.barr(neg, a).iter().any(|v| !*v),
            FCons::ArrBoolAnd { xs, r } => self.be(r, a) == self.barr(xs, a).iter().all(|v| *v),
            FCons::ArrBoolOr { xs, r } => self.be(r, a) == self.barr(xs, a).iter().any(|v| *v),
            FCons::BoolXor { a: x, b, reif } => reified(reif, self.be(x, a) != self.be(b, a)),
            FCons::BoolLinEq { ws, xs, c } => {
                let lhs: i64 = self.carr(ws).iter().zip(self.barr(xs, a)).map(|(w, x)| if x { *w } else { 0 }).sum();
                lhs == self.ie(c, a)
            }
            FCons::BoolLinLe { ws, xs, c } => {
                let lhs: i64 = self.carr(ws).iter().zip(self.barr(xs, a)).map(|(w, x)| if x { *w } else { 0 }).sum();
                lhs <= self.ie(c, a)
            }
            FCons::SetIn { x, s, reif } => reified(reif, self.set_contains(s, self.ie(x, a))),
        }
    }

    pub fn domain(&self, v: &FVar) -> Vec<i32> {
        match &v.ty {
            FTy::Bool => vec![0, 1],
            FTy::Range { lb, ub } => (*lb..=*ub).collect(),
            FTy::Set { values } => {
                let mut v = values.clone();
                v.sort_unstable();
                v.dedup();
                v
            }
        }
    }

    fn init_holds(&self, i: usize, a: &[i32]) -> bool {
        match &self.vars[i].init {
            FInit::None => true,
            FInit::Int(c) => a[i] == *c,
            FInit::Bool(b) => (a[i] != 0) == *b,
            FInit::Var(j) => a[i] == a[*j],
            FInit::ParInt(p) => a[i] as i64 == self.ie(&IE::Par(*p), a),
            FInit::ParBool(p) => (a[i] != 0) == self.be(&BE::Par(*p), a),
        }
    }

    /// all assignments to the declared variables which satisfy the model
    pub fn solutions(&self) -> Vec<Vec<i32>> {
        let doms: Vec<Vec<i32>> = self.vars.iter().map(|v| self.domain(v)).collect();
        let n = doms.len();
        let mut out = vec![];
        if doms.iter().any(|d| d.is_empty()) {
            return out;
        }
        let mut idx = vec![0usize; n];
        loop {
            let a: Vec<i32> = (0..n).map(|i| doms[i][idx[i]]).collect();
            if (0..n).all(|i| self.init_holds(i, &a)) && self.cons.iter().all(|c| self.holds(c, &a)) {
                out.push(a);
            }
            let mut k = n;
            loop {
                if k == 0 {
                    return out;
                }
                k -= 1;
                idx[k] += 1;
                if idx[k] < doms[k].len() {
                    break;
                }
                idx[k] = 0;
            }
        }
    }

    pub fn space(&self) -> u128 {
        self.vars.iter().map(|v| self.domain(v).len() as u128).product()
    }

    /// the printed form of the output items for an assignment
    pub fn project(&self, a: &[i32]) -> BTreeMap<String, String> {
        let mut m = BTreeMap::new();
        for (i, v) in self.vars.iter().enumerate() {
            if v.output {
                let s = if v.ty == FTy::Bool { (a[i] != 0).to_string() } else { a[i].to_string() };
                let _ = m.insert(var_name(i, v), s);
            }
        }
        for (i, arr) in self.arrays.iter().enumerate() {
            if arr.output {
                let vals: Vec<String> = if arr.is_bool {
                    arr.bools.iter().map(|b| self.be(b, a).to_string()).collect()
                } else {
                    arr.ints.iter().map(|x| self.ie(x, a).to_string()).collect()
                };
                let _ = m.insert(format!("arr{}", i), format!("array1d(1..{}, [{}])", vals.len(), vals.join(", ")));
            }
        }
        m
    }
}

// ------------------------------------------------------------------------------------------
// rendering

fn var_name(i: usize, v: &FVar) -> String {
    if v.ty == FTy::Bool {
        format!("b{}", i)
    } else {
        format!("x{}", i)
    }
}

fn par_name(i: usize) -> String {
    format!("p{}", i)
}

impl FznModel {
    fn r_ie(&self, e: &IE) -> String {
        match e {
            IE::Var(i) => var_name(*i, &self.vars[*i]),
            IE::Lit(c) => c.to_string(),
            IE::Par(p) => par_name(*p),
        }
    }
    fn r_be(&self, e: &BE) -> String {
        match e {
            BE::Var(i) => var_name(*i, &self.vars[*i]),
            BE::Lit(c) => c.to_string(),
            BE::Par(p) => par_name(*p),
        }
    }
    fn r_iarr(&self, e: &IArr) -> String {
        match e {
            IArr::Named(i) => format!("arr{}", i),
            IArr::Lits(v) => format!("[{}]", v.iter().map(|x| self.r_ie(x)).collect::<Vec<_>>().join(",")),
            IArr::Par(p) => par_name(*p),
        }
    }
    fn r_barr(&self, e: &BArr) -> String {
        match e {
            BArr::Named(i) => format!("arr{}", i),
            BArr::Lits(v) => format!("[{}]", v.iter().map(|x| self.r_be(x)).collect::<Vec<_>>().join(",")),
            BArr::Par(p) => par_name(*p),
        }
    }
    fn r_carr(&self, e: &CArr) -> String {
        match e {
            CArr::Lits(v) => format!("[{}]", v.iter().map(|x| x.to_string()).collect::<Vec<_>>().join(",")),
            CArr::Par(p) => par_name(*p),
        }
    }
    fn r_set(&self, s: &SetE) -> String {
        match s {
            SetE::Range(lb, ub) => format!("{}..{}", lb, ub),
            SetE::Lits(v) => format!("{{{}}}", v.iter().map(|x| x.to_string()).collect::<Vec<_>>().join(",")),
            SetE::Par(p) => par_name(*p),
        }
    }
    fn r_cons(&self, c: &FCons) -> String {
        let name = c.name();
        let with_reif = |mut args: Vec<String>, reif: &Option<BE>| {
            if let Some(r) = reif {
                args.push(self.r_be(r));
            }
            args
        };
        let args: Vec<String> = match c {
            FCons::IntLin { ws, xs, rhs, reif, .. } => with_reif(vec![self.r_carr(ws), self.r_iarr(xs), self.r_ie(rhs)], reif),
            FCons::IntBin { a, b, reif, .. } => with_reif(vec![self.r_ie(a), self.r_ie(b)], reif),
            FCons::IntTern { a, b, c, .. } => vec![self.r_ie(a), self.r_ie(b), self.r_ie(c)],
            FCons::IntAbs { a, b } => vec![self.r_ie(a), self.r_ie(b)],
            FCons::ArrMax { m, xs } | FCons::ArrMin { m, xs } => vec![self.r_ie(m), self.r_iarr(xs)],
            FCons::IntElement { idx, arr, rhs, .. } => vec![self.r_ie(idx), self.r_iarr(arr), self.r_ie(rhs)],
            FCons::BoolElement { idx, arr, rhs, .. } => vec![self.r_ie(idx), self.r_barr(arr), self.r_be(rhs)],
            FCons::AllDiff { xs } => vec![self.r_iarr(xs)],
            FCons::Cumulative { s, d, r, b } => vec![self.r_iarr(s), self.r_carr(d), self.r_carr(r), self.r_ie(b)],
            FCons::Bool2Int { b, i } => vec![self.r_be(b), self.r_ie(i)],
            FCons::BoolAnd { a, b, r } => vec![self.r_be(a), self.r_be(b), self.r_be(r)],
            FCons::BoolEq { a, b, reif } | FCons::BoolXor { a, b, reif } => with_reif(vec![self.r_be(a), self.r_be(b)], reif),
            FCons::BoolNot { a, b } => vec![self.r_be(a), self.r_be(b)],
            FCons::BoolClause { pos, neg } => vec![self.r_barr(pos), self.r_barr(neg)],
            FCons::ArrBoolAnd { xs, r } | FCons::ArrBoolOr { xs, r } => vec![self.r_barr(xs), self.r_be(r)],
            FCons::BoolLinEq { ws, xs, c } | FCons::BoolLinLe { ws, xs, c } => vec![self.r_carr(ws), self.r_barr(xs), self.r_ie(c)],
            FCons::SetIn { x, s, reif } => with_reif(vec![self.r_ie(x), self.r_set(s)], reif),
        };
        format!("constraint {}({});", name, args.join(","))
    }
    fn r_search(&self, s: &SearchAnn) -> String {
        match s {
            SearchAnn::Int { vars, varsel, valsel } => {
                format!("int_search([{}],{},{},complete)", vars.iter().map(|v| var_name(*v, &self.vars[*v])).collect::<Vec<_>>().join(","), varsel, valsel)
            }
            SearchAnn::Bool { vars, varsel, valsel } => {
                format!("bool_search([{}],{},{},complete)", vars.iter().map(|v| var_name(*v, &self.vars[*v])).collect::<Vec<_>>().join(","), varsel, valsel)
            }
            SearchAnn::Seq(v) => format!("seq_search([{}])", v.iter().map(|x| self.r_search(x)).collect::<Vec<_>>().join(",")),
        }
    }

    /// one statement per line (the parser of the solver is line based)
    pub fn render(&self) -> String {
        let mut s = String::new();
        for (i, p) in self.params.iter().enumerate() {
            let n = par_name(i);
            s.push_str(&match p {
                FParam::Int(c) => format!("int: {} = {};\n", n, c),
                FParam::Bool(c) => format!("bool: {} = {};\n", n, c),
                FParam::IntArray(v) => format!("array [1..{}] of int: {} = [{}];\n", v.len(), n, v.iter().map(|x| x.to_string()).collect::<Vec<_>>().join(",")),
                FParam::BoolArray(v) => format!("array [1..{}] of bool: {} = [{}];\n", v.len(), n, v.iter().map(|x| x.to_string()).collect::<Vec<_>>().join(",")),
                FParam::SetRange(lb, ub) => format!("set of int: {} = {}..{};\n", n, lb, ub),
                FParam::SetLit(v) => format!("set of int: {} = {{{}}};\n", n, v.iter().map(|x| x.to_string()).collect::<Vec<_>>().join(",")),
            });
        }
        for (i, v) in self.vars.iter().enumerate() {
            let ty = match &v.ty {
                FTy::Bool => "var bool".to_string(),
                FTy::Range { lb, ub } => format!("var {}..{}", lb, ub),
                FTy::Set { values } => format!("var {{{}}}", values.iter().map(|x| x.to_string()).collect::<Vec<_>>().join(",")),
            };
            let ann = if v.output { " :: output_var" } else { "" };
            let init = match &v.init {
                FInit::None => String::new(),
                FInit::Int(c) => format!(" = {}", c),
                FInit::Bool(b) => format!(" = {}", b),
                FInit::Var(j) => format!(" = {}", var_name(*j, &self.vars[*j])),
                FInit::ParInt(p) | FInit::ParBool(p) => format!(" = {}", par_name(*p)),
            };
            s.push_str(&format!("{}: {}{}{};\n", ty, var_name(i, v), ann, init));
        }
        for (i, a) in self.arrays.iter().enumerate() {
            let n = if a.is_bool { a.bools.len() } else { a.ints.len() };
            let ann = if a.output { format!(" :: output_array([1..{}])", n) } else { String::new() };
            let elems = if a.is_bool { a.bools.iter().map(|x| self.r_be(x)).collect::<Vec<_>>() } else { a.ints.iter().map(|x| self.r_ie(x)).collect::<Vec<_>>() };
            s.push_str(&format!("array [1..{}] of var {}: arr{}{} = [{}];\n", n, if a.is_bool { "bool" } else { "int" }, i, ann, elems.join(",")));
        }
        for c in &self.cons {
            s.push_str(&self.r_cons(c));
            s.push('\n');
        }
        let ann = match &self.search {
            Some(a) => format!(" :: {}", self.r_search(a)),
            None => String::new(),
        };
        s.push_str(&match &self.goal {
            Goal::Satisfy => format!("solve{} satisfy;\n", ann),
            Goal::Min(v) => format!("solve{} minimize {};\n", ann, var_name(*v, &self.vars[*v])),
            Goal::Max(v) => format!("solve{} maximize {};\n", ann, var_name(*v, &self.vars[*v])),
        });
        s
    }
}

// ------------------------------------------------------------------------------------------
// output parsing

#[derive(Debug, Clone, PartialEq, Eq)]
pub struct FznOutput {
    pub blocks: Vec<BTreeMap<String, String>>,
    pub complete: bool,
    pub unsat: bool,
    pub unknown: bool,
}

pub fn parse_fzn_output(out: &str) -> Result<FznOutput, String> {
    let mut r = FznOutput { blocks: vec![], complete: false, unsat: false, unknown: false };
    let mut cur: BTreeMap<String, String> = BTreeMap::new();
    for line in out.lines() {
        let l = line.trim();
        if l.is_empty() || l.starts_with('%') {
            continue;
        }
        if r.complete || r.unsat || r.unknown {
            return Err(format!("output after the final line: {l:?}"));
        }
        match l {
            "----------" => r.blocks.push(std::mem::take(&mut cur)),
            "==========" => r.complete = true,
            "=====UNSATISFIABLE=====" => r.unsat = true,
            "=====UNKNOWN=====" => r.unknown = true,
            _ => {
                let Some((name, value)) = l.split_once(" = ") else {
                    return Err(format!("unexpected line {l:?}"));
                };
                let Some(value) = value.strip_suffix(';') else {
                    return Err(format!("unterminated line {l:?}"));
                };
                if cur.insert(name.to_string(), value.to_string()).is_some() {
                    return Err(format!("{name} printed twice in one solution"));
                }
            }
        }
    }
    if !cur.is_empty() {
        return Err("solution without terminating ----------".into());
    }
    Ok(r)
}

// ------------------------------------------------------------------------------------------
// generation

pub static EXCLUDED_EMPTY_DOMAIN: std::sync::atomic::AtomicU64 = std::sync::atomic::AtomicU64::new(0);

const VARSELS: [&str; 6] = ["input_order", "first_fail", "anti_first_fail", "smallest", "largest", "max_regret"];
const VALSELS: [&str; 14] = [
    "indomain", "indomain_interval", "indomain_max", "indomain_median", "indomain_middle", "indomain_min", "indomain_random", "indomain_reverse_split",
    "indomain_split", "indomain_split_random", "outdomain_max", "outdomain_median", "outdomain_min", "outdomain_random",
];

struct G<'a> {
    r: &'a [u16],
    i: usize,
}

impl G<'_> {
    fn u(&mut self) -> u16 {
        let v = self.r[self.i % self.r.len()];
        self.i += 1;
        v
    }
    fn below(&mut self, n: usize) -> usize {
        pick(self.u(), n)
    }
    fn small(&mut self) -> i32 {
        (self.u() % 7) as i32 - 3
    }
    fn coin(&mut self, permille: u32) -> bool {
        ((self.u() as u32 * 1000) >> 16) < permille
    }
}

pub fn build_fzn(raw: &[u16], space_limit: u128) -> FznModel {
    let mut g = G { r: raw, i: 0 };
    let mut m = FznModel { params: vec![], vars: vec![], arrays: vec![], cons: vec![], goal: Goal::Satisfy, search: None };
    // parameters
    let n_par = g.below(5);
    for _ in 0..n_par {
        let p = match g.below(6) {
            0 => FParam::Int(g.small()),
            1 => FParam::Bool(g.coin(500)),
            2 => {
                let n = 1 + g.below(3);
                FParam::IntArray((0..n).map(|_| g.small()).collect())
            }
            3 => {
                let n = 1 + g.below(3);
                FParam::BoolArray((0..n).map(|_| g.coin(500)).collect())
            }
            4 => {
                let lb = g.small();
                FParam::SetRange(lb, lb + g.below(4) as i32)
            }
            _ => {
                let lb = g.small();
                let mut v: Vec<i32> = (0..5).filter(|_| g.coin(500)).map(|k| lb + k).collect();
                if v.is_empty() {
                    v.push(lb);
                }
                FParam::SetLit(v)
            }
        };
        m.params.push(p);
    }
    let int_pars: Vec<usize> = m.params.iter().enumerate().filter(|(_, p)| matches!(p, FParam::Int(_))).map(|(i, _)| i).collect();
    let bool_pars: Vec<usize> = m.params.iter().enumerate().filter(|(_, p)| matches!(p, FParam::Bool(_))).map(|(i, _)| i).collect();
    let iarr_pars: Vec<usize> = m.params.iter().enumerate().filter(|(_, p)| matches!(p, FParam::IntArray(_))).map(|(i, _)| i).collect();
    let barr_pars: Vec<usize> = m.params.iter().enumerate().filter(|(_, p)| matches!(p, FParam::BoolArray(_))).map(|(i, _)| i).collect();
    let set_pars: Vec<usize> = m.params.iter().enumerate().filter(|(_, p)| matches!(p, FParam::SetRange(..) | FParam::SetLit(_))).map(|(i, _)| i).collect();

    // variables
    let n_var = 2 + g.below(5);
    let mut space: u128 = 1;
    for i in 0..n_var {
        let room = (space_limit / space).max(1);
        let kind = g.below(10);
        let ty = if kind < 3 && room >= 2 {
            FTy::Bool
        } else if kind < 8 || room < 2 {
            let lb = g.small();
            let size = (1 + g.below(5) as u128).min(room) as i32;
            FTy::Range { lb, ub: lb + size - 1 }
        } else {
            let lb = g.small();
            let mut v: Vec<i32> = (0..7).filter(|_| g.coin(450)).map(|k| lb + k).collect();
            v.truncate(room.min(6) as usize);
            if v.is_empty() {
                v.push(lb);
            }
            FTy::Set { values: v }
        };
        let same_type: Vec<usize> = (0..i).filter(|j| (m.vars[*j].ty == FTy::Bool) == (ty == FTy::Bool)).collect();
        let init = match g.below(12) {
            0 if !same_type.is_empty() => FInit::Var(same_type[g.below(same_type.len())]),
            1 => match &ty {
                FTy::Bool => FInit::Bool(g.coin(500)),
                FTy::Range { lb, ub } => FInit::Int(lb + g.below((ub - lb + 1) as usize) as i32),
                FTy::Set { .. } => FInit::None,
            },
            2 if ty == FTy::Bool && !bool_pars.is_empty() => FInit::ParBool(bool_pars[g.below(bool_pars.len())]),
            2 if matches!(ty, FTy::Range { .. }) && !int_pars.is_empty() => FInit::ParInt(int_pars[g.below(int_pars.len())]),
            _ => FInit::None,
        };
        let v = FVar { ty, init, output: g.coin(650) };
        space *= m.domain(&v).len() as u128;
        m.vars.push(v);
    }
    let ints: Vec<usize> = (0..m.vars.len()).filter(|i| m.vars[*i].ty != FTy::Bool).collect();
    let bools: Vec<usize> = (0..m.vars.len()).filter(|i| m.vars[*i].ty == FTy::Bool).collect();

    // expression helpers (closures would borrow g mutably several times; use small fns)
    fn ie(g: &mut G, ints: &[usize], int_pars: &[usize]) -> IE {
        match g.below(10) {
            0 => IE::Lit(g.small()),
            1 if !int_pars.is_empty() => IE::Par(int_pars[g.below(int_pars.len())]),
            _ if !ints.is_empty() => IE::Var(ints[g.below(ints.len())]),
            _ => IE::Lit(g.small()),
        }
    }
    fn iv(g: &mut G, ints: &[usize]) -> IE {
        if ints.is_empty() {
            IE::Lit(g.small())
        } else {
            IE::Var(ints[g.below(ints.len())])
        }
    }
    fn be(g: &mut G, bools: &[usize], bool_pars: &[usize]) -> BE {
        match g.below(10) {
            0 => BE::Lit(g.coin(500)),
            1 if !bool_pars.is_empty() => BE::Par(bool_pars[g.below(bool_pars.len())]),
            _ if !bools.is_empty() => BE::Var(bools[g.below(bools.len())]),
            _ => BE::Lit(g.coin(500)),
        }
    }
    fn bv(g: &mut G, bools: &[usize]) -> BE {
        if bools.is_empty() {
            BE::Lit(g.coin(500))
        } else {
            BE::Var(bools[g.below(bools.len())])
        }
    }

    // variable arrays (variables and literal constants)
    let n_arr = g.below(3);
    for _ in 0..n_arr {
        let is_bool = g.coin(350) && !bools.is_empty();
        let n = 1 + g.below(4);
        let arr = if is_bool {
            FVarArray { is_bool, ints: vec![], bools: (0..n).map(|_| if g.coin(150) { BE::Lit(g.coin(500)) } else { bv(&mut g, &bools) }).collect(), output: g.coin(500) }
        } else {
            FVarArray { is_bool, ints: (0..n).map(|_| if g.coin(150) { IE::Lit(g.small()) } else { iv(&mut g, &ints) }).collect(), bools: vec![], output: g.coin(500) }
        };
        m.arrays.push(arr);
    }
    let int_arrays: Vec<usize> = (0..m.arrays.len()).filter(|i| !m.arrays[*i].is_bool).collect();
    let bool_arrays: Vec<usize> = (0..m.arrays.len()).filter(|i| m.arrays[*i].is_bool).collect();

    fn iarr(g: &mut G, ints: &[usize], int_pars: &[usize], int_arrays: &[usize], iarr_pars: &[usize], min: usize) -> IArr {
        match g.below(8) {
            0 if !int_arrays.is_empty() => IArr::Named(int_arrays[g.below(int_arrays.len())]),
            1 if !iarr_pars.is_empty() => IArr::Par(iarr_pars[g.below(iarr_pars.len())]),
            _ => {
                let n = min + g.below(4 - min.min(3));
                IArr::Lits((0..n).map(|_| ie(g, ints, int_pars)).collect())
            }
        }
    }
    fn barr(g: &mut G, bools: &[usize], bool_pars: &[usize], bool_arrays: &[usize], barr_pars: &[usize], min: usize) -> BArr {
        match g.below(8) {
            0 if !bool_arrays.is_empty() => BArr::Named(bool_arrays[g.below(bool_arrays.len())]),
            1 if !barr_pars.is_empty() => BArr::Par(barr_pars[g.below(barr_pars.len())]),
            _ => {
                let n = min + g.below(4 - min.min(3));
                BArr::Lits((0..n).map(|_| be(g, bools, bool_pars)).collect())
            }
        }
    }

    // a planted assignment: most constraints are re-drawn (up to 4 times) until it satisfies them,
    // so that roughly half of the models are satisfiable
    let mut witness: Vec<i32> = vec![];
    for i in 0..m.vars.len() {
        let d = m.domain(&m.vars[i]);
        let v = match &m.vars[i].init {
            FInit::Var(j) if d.contains(&witness[*j]) => witness[*j],
            FInit::Int(c) => *c,
            FInit::Bool(b) => *b as i32,
            FInit::ParInt(p) => match m.params[*p] {
                FParam::Int(c) => c,
                _ => 0,
            },
            FInit::ParBool(p) => match m.params[*p] {
                FParam::Bool(b) => b as i32,
                _ => 0,
            },
            _ => d[g.below(d.len())],
        };
        witness.push(v);
    }
    // constraints
    let n_cons = 1 + g.below(5);
    let mut attempts_left = 0;
    let mut ci = 0;
    while ci < n_cons {
        if attempts_left == 0 {
            attempts_left = if g.coin(800) { 4 } else { 1 };
        }
        let reif = |g: &mut G| if g.coin(400) { Some(bv(g, &bools)) } else { None };
        let k = g.below(26);
        let c = match k {
            0..=3 => {
                let xs = iarr(&mut g, &ints, &int_pars, &int_arrays, &iarr_pars, 1);
                let n = m.iarr_len(&xs);
                let ws = if g.coin(200) && iarr_pars.iter().any(|p| matches!(&m.params[*p], FParam::IntArray(v) if v.len() == n && v.iter().all(|w| *w != 0))) {
                    CArr::Par(*iarr_pars.iter().find(|p| matches!(&m.params[**p], FParam::IntArray(v) if v.len() == n && v.iter().all(|w| *w != 0))).unwrap())
                } else {
                    // zero coefficients are excluded by construction (known finding KF-zero-scale)
                    CArr::Lits((0..n).map(|_| { let w = g.small(); if w == 0 { 1 } else { w } }).collect())
                };
                let rhs = if g.coin(150) && !int_pars.is_empty() { IE::Par(int_pars[g.below(int_pars.len())]) } else { IE::Lit(g.small() * 2) };
                FCons::IntLin { op: ["eq", "le", "ne"][g.below(3)].into(), ws, xs, rhs, reif: reif(&mut g) }
            }
            4..=6 => FCons::IntBin { op: ["eq", "ne", "le", "lt"][g.below(4)].into(), a: ie(&mut g, &ints, &int_pars), b: ie(&mut g, &ints, &int_pars), reif: reif(&mut g) },
            7 | 8 => {
                let op = ["plus", "times", "div", "max", "min"][g.below(5)];
                let a = ie(&mut g, &ints, &int_pars);
                let mut b = ie(&mut g, &ints, &int_pars);
                if op == "div" {
                    // documented precondition of the solver: 0 is not in the domain of the divisor
                    let zero_possible = match b {
                        IE::Var(i) => m.domain(&m.vars[i]).contains(&0),
                        IE::Lit(c) => c == 0,
                        IE::Par(p) => matches!(m.params[p], FParam::Int(0)),
                    };
                    if zero_possible {
                        b = IE::Lit(if g.coin(500) { 2 } else { -2 });
                    }
                }
                FCons::IntTern { op: op.into(), a, b, c: ie(&mut g, &ints, &int_pars) }
            }
            9 => FCons::IntAbs { a: ie(&mut g, &ints, &int_pars), b: ie(&mut g, &ints, &int_pars) },
            10 => {
                let xs = iarr(&mut g, &ints, &int_pars, &int_arrays, &iarr_pars, 1);
                if g.coin(500) {
                    FCons::ArrMax { m: iv(&mut g, &ints), xs }
                } else {
                    FCons::ArrMin { m: iv(&mut g, &ints), xs }
                }
            }
            11 | 12 => {
                let var_array = g.coin(500);
                let arr = if var_array {
                    iarr(&mut g, &ints, &int_pars, &int_arrays, &iarr_pars, 1)
                } else if !iarr_pars.is_empty() && g.coin(400) {
                    IArr::Par(iarr_pars[g.below(iarr_pars.len())])
                } else {
                    let n = 1 + g.below(4);
                    IArr::Lits((0..n).map(|_| IE::Lit(g.small())).collect())
                };
                FCons::IntElement { var_array, idx: iv(&mut g, &ints), arr, rhs: ie(&mut g, &ints, &int_pars) }
            }
            13 => {
                let var_array = g.coin(500);
                let arr = if var_array {
                    barr(&mut g, &bools, &bool_pars, &bool_arrays, &barr_pars, 1)
                } else if !barr_pars.is_empty() && g.coin(400) {
                    BArr::Par(barr_pars[g.below(barr_pars.len())])
                } else {
                    let n = 1 + g.below(4);
                    BArr::Lits((0..n).map(|_| BE::Lit(g.coin(500))).collect())
                };
                FCons::BoolElement { var_array, idx: iv(&mut g, &ints), arr, rhs: be(&mut g, &bools, &bool_pars) }
            }
            14 => FCons::AllDiff { xs: iarr(&mut g, &ints, &int_pars, &int_arrays, &iarr_pars, 2) },
            15 => {
                let s = iarr(&mut g, &ints, &int_pars, &int_arrays, &iarr_pars, 1);
                let n = m.iarr_len(&s);
                let cap = 1 + g.below(3) as i32;
                let d: Vec<i32> = (0..n).map(|_| g.below(4) as i32).collect();
                // usage <= capacity for tasks with positive duration (known finding KF-cumulative-overcap)
                let r: Vec<i32> = (0..n).map(|_| (g.below(4) as i32).min(cap)).collect();
                FCons::Cumulative { s, d: CArr::Lits(d), r: CArr::Lits(r), b: IE::Lit(cap) }
            }
            16 => FCons::Bool2Int { b: be(&mut g, &bools, &bool_pars), i: ie(&mut g, &ints, &int_pars) },
            17 => FCons::BoolAnd { a: be(&mut g, &bools, &bool_pars), b: be(&mut g, &bools, &bool_pars), r: be(&mut g, &bools, &bool_pars) },
            18 => FCons::BoolEq { a: be(&mut g, &bools, &bool_pars), b: be(&mut g, &bools, &bool_pars), reif: reif(&mut g) },
            19 => FCons::BoolNot { a: be(&mut g, &bools, &bool_pars), b: be(&mut g, &bools, &bool_pars) },
            20 => FCons::BoolClause { pos: barr(&mut g, &bools, &bool_pars, &bool_arrays, &barr_pars, 0), neg: barr(&mut g, &bools, &bool_pars, &bool_arrays, &barr_pars, 0) },
            21 => {
                let xs = barr(&mut g, &bools, &bool_pars, &bool_arrays, &barr_pars, 1);
                if g.coin(500) {
                    FCons::ArrBoolAnd { xs, r: be(&mut g, &bools, &bool_pars) }
                } else {
                    FCons::ArrBoolOr { xs, r: be(&mut g, &bools, &bool_pars) }
                }
            }
            22 => FCons::BoolXor { a: be(&mut g, &bools, &bool_pars), b: be(&mut g, &bools, &bool_pars), reif: reif(&mut g) },
            23 => {
                let xs = barr(&mut g, &bools, &bool_pars, &bool_arrays, &barr_pars, 1);
                let n = m.barr_len(&xs);
                let ws = CArr::Lits((0..n).map(|_| { let w = g.small(); if w == 0 { 1 } else { w } }).collect());
                if g.coin(500) {
                    FCons::BoolLinEq { ws, xs, c: iv(&mut g, &ints) }
                } else {
                    FCons::BoolLinLe { ws, xs, c: IE::Lit(g.small()) }
                }
            }
            _ => {
                let s = match g.below(3) {
                    0 if !set_pars.is_empty() => SetE::Par(set_pars[g.below(set_pars.len())]),
                    1 => {
                        let lb = g.small();
                        SetE::Range(lb, lb + g.below(4) as i32)
                    }
                    _ => {
                        let lb = g.small();
                        let mut v: Vec<i32> = (0..6).filter(|_| g.coin(500)).map(|k| lb + k).collect();
                        if v.is_empty() {
                            v.push(lb);
                        }
                        // a set literal may list a value twice and in any order (the grammar does not forbid it)
                        if g.coin(250) {
                            let k = g.below(v.len());
                            let dup = v[k];
                            let at = g.below(v.len() + 1);
                            v.insert(at, dup);
                        }
                        if g.coin(150) {
                            v.reverse();
                        }
                        SetE::Lits(v)
                    }
                };
                FCons::SetIn { x: iv(&mut g, &ints), s, reif: reif(&mut g) }
            }
        };
        // set_in needs a variable as first argument
        if let FCons::SetIn { x: IE::Lit(_), .. } = c {
            ci += 1;
            attempts_left = 0;
            continue;
        }
        attempts_left -= 1;
        if attempts_left > 0 && !m.holds(&c, &witness) {
            // re-draw this constraint
            continue;
        }
        attempts_left = 0;
        ci += 1;
        m.cons.push(c);
    }
    // known finding KF-fzn-empty-merged-domain: excluded by construction (plain set_in constraints and
    // aliases which leave a variable without values are dropped)
    while m.merged_domain_empty() {
        EXCLUDED_EMPTY_DOMAIN.fetch_add(1, std::sync::atomic::Ordering::Relaxed);
        if let Some(i) = m.cons.iter().position(|c| matches!(c, FCons::SetIn { reif: None, .. })) {
            let _ = m.cons.remove(i);
        } else if let Some(v) = m.vars.iter_mut().find(|v| !matches!(v.init, FInit::None)) {
            v.init = FInit::None;
        } else {
            break;
        }
    }
    // goal: the objective is always an output variable so that its value can be judged
    if g.coin(350) && !ints.is_empty() {
        let v = ints[g.below(ints.len())];
        m.vars[v].output = true;
        m.goal = if g.coin(500) { Goal::Min(v) } else { Goal::Max(v) };
    }
    if !m.vars.iter().any(|v| v.output) && !m.arrays.iter().any(|a| a.output) {
        m.vars[0].output = true;
    }
    // search annotation
    if g.coin(450) {
        let mk = |g: &mut G| {
            if g.coin(650) && !ints.is_empty() {
                let n = 1 + g.below(ints.len());
                SearchAnn::Int { vars: (0..n).map(|_| ints[g.below(ints.len())]).collect(), varsel: VARSELS[g.below(VARSELS.len())].into(), valsel: VALSELS[g.below(VALSELS.len())].into() }
            } else if !bools.is_empty() {
                let n = 1 + g.below(bools.len());
                SearchAnn::Bool { vars: (0..n).map(|_| bools[g.below(bools.len())]).collect(), varsel: VARSELS[g.below(VARSELS.len())].into(), valsel: VALSELS[g.below(VALSELS.len())].into() }
            } else {
                SearchAnn::Int { vars: vec![ints[0]], varsel: "input_order".into(), valsel: "indomain_min".into() }
            }
        };
        m.search = Some(if g.coin(300) { SearchAnn::Seq(vec![mk(&mut g), mk(&mut g)]) } else { mk(&mut g) });
    }
    m
}

impl FznModel {
    fn iarr_len(&self, a: &IArr) -> usize {
        match a {
            IArr::Named(i) => self.arrays[*i].ints.len(),
            IArr::Lits(v) => v.len(),
            IArr::Par(p) => match &self.params[*p] {
                FParam::IntArray(v) => v.len(),
                _ => 0,
            },
        }
    }
    fn barr_len(&self, a: &BArr) -> usize {
        match a {
            BArr::Named(i) => self.arrays[*i].bools.len(),
            BArr::Lits(v) => v.len(),
            BArr::Par(p) => match &self.params[*p] {
                FParam::BoolArray(v) => v.len(),
                _ => 0,
            },
        }
    }
    /// the domain of a variable after intersecting it with the domains of its aliases and with the
    /// plain `set_in` constraints on it (what the solver computes before creating the variable)
    pub fn merged_domain_empty(&self) -> bool {
        // union-find over aliases
        let n = self.vars.len();
        let mut rep: Vec<usize> = (0..n).collect();
        fn find(rep: &mut Vec<usize>, i: usize) -> usize {
            if rep[i] != i {
                let r = find(rep, rep[i]);
                rep[i] = r;
            }
            rep[i]
        }
        for i in 0..n {
            if let FInit::Var(j) = self.vars[i].init {
                let (a, b) = (find(&mut rep, i), find(&mut rep, j));
                rep[a] = b;
            }
        }
        for i in 0..n {
            let r = find(&mut rep, i);
            let mut dom: Vec<i32> = self.domain(&self.vars[r]);
            for j in 0..n {
                if find(&mut rep, j) == r {
                    let d = self.domain(&self.vars[j]);
                    dom.retain(|v| d.contains(v));
                    match &self.vars[j].init {
                        FInit::Int(c) => dom.retain(|v| v == c),
                        FInit::Bool(b) => dom.retain(|v| (*v != 0) == *b),
                        FInit::ParInt(p) => {
                            if let FParam::Int(c) = self.params[*p] {
                                dom.retain(|v| *v == c)
                            }
                        }
                        FInit::ParBool(p) => {
                            if let FParam::Bool(b) = self.params[*p] {
                                dom.retain(|v| (*v != 0) == b)
                            }
                        }
                        _ => {}
                    }
                    for c in &self.cons {
                        if let FCons::SetIn { x: IE::Var(k), s, reif: None } = c {
                            if *k == j {
                                dom.retain(|v| self.set_contains(s, *v as i64));
                            }
                        }
                    }
                }
            }
            if dom.is_empty() {
                return true;
            }
        }
        false
    }

    pub fn feature(&self, name: &str) -> bool {
        if let Some(n) = name.strip_prefix("has_constraint:") {
            return self.cons.iter().any(|c| c.name() == n);
        }
        match name {
            "empty_merged_domain" => self.merged_domain_empty(),
            "set_typed_var" => self.vars.iter().any(|v| matches!(v.ty, FTy::Set { .. })),
            "alias" => self.vars.iter().any(|v| matches!(v.init, FInit::Var(_))),
            "set_in_on_set_typed_var" => self.cons.iter().any(|c| matches!(c, FCons::SetIn { x: IE::Var(i), reif: None, .. } if matches!(self.vars[*i].ty, FTy::Set { .. }))),
            _ => false,
        }
    }
}

// ------------------------------------------------------------------------------------------
// property

pub struct FznProp;

impl Property for FznProp {
    type Case = FznCase;
    fn id(&self) -> &'static str {
        "C13"
    }
    fn rule(&self) -> String {
        "generated FlatZinc text (one statement per line) over the builtins handled by the solver (int_lin_{eq,le,ne}[_reif], int_{eq,ne,le,lt}[_reif], int_plus/times/div/abs/max/min, array_int_{maximum,minimum}, array_[var_]int_element, array_[var_]bool_element, pumpkin_all_different, pumpkin_cumulative, bool2int, bool_and, bool_eq[_reif], bool_not, bool_clause, array_bool_{and,or}, pumpkin_bool_xor[_reif], bool_lin_{eq,le}, set_in[_reif]) with range / set / bool variables, fixed values, aliases, int / bool / array / set parameters, variable arrays mixing variables and constants, output_var / output_array annotations, int_search / bool_search / seq_search annotations over the supported selection names, solve satisfy / minimize / maximize; run through the real binary with and without -a / -f and both optimisation strategies. Oracle: brute-force enumeration of all declared variables with the standard meaning of each builtin, projected on the output items: every printed block must be in the projection; with -a on satisfy the set of blocks equals the projection and is followed by ==========; =====UNSATISFIABLE===== iff the projection is empty; for minimize/maximize the last block has the optimal objective value and is followed by ==========. Non-trivial: >=2 constraints of different builtins and (an alias, a set-typed variable, a parameter array, a variable array or a search annotation); distinct by hash of the model.".into()
    }
    fn assumptions(&self) -> Vec<String> {
        vec![
            "reference meaning of the builtins in harness/src/props/fzn.rs (Appendix A of DESIGN.md)".into(),
            "duplicated blocks with -a are tolerated (auxiliary variables of the compilation repeat a projection)".into(),
            "int_div is only generated with a divisor whose domain excludes 0 (documented precondition)".into(),
        ]
    }
    fn strategy(&self, tier: Tier) -> BoxedStrategy<FznCase> {
        let limit: u128 = if tier == Tier::Quick { 600 } else { 4000 };
        (proptest::collection::vec(any::<u16>(), 200..=200), any::<u8>(), 0u64..4)
            .prop_map(move |(raw, flags, seed)| {
                let model = build_fzn(&raw, limit);
                FznCase { model, all_solutions: flags & 1 == 1, free_search: flags & 2 == 2, lus: flags & 4 == 4, seed }
            })
            .boxed()
    }
    fn cases(&self, tier: Tier) -> u64 {
        match tier {
            Tier::Quick => 30_000,
            Tier::Thorough => 500_000,
        }
    }
    fn floors(&self, _tier: Tier) -> Vec<(&'static str, f64)> {
        vec![("sat", 0.25), ("unsat", 0.15), ("has:alias", 0.08), ("has:set_var", 0.1), ("has:search", 0.2), ("goal:optimise", 0.15)]
    }
    fn feature(&self, case: &FznCase, name: &str) -> bool {
        case.model.feature(name)
    }
    fn run(&self, case: &FznCase) -> Verdict {
        let m = &case.model;
        let mut out = Outcome::default();
        for c in &m.cons {
            out.classes.push(format!("c:{}", c.name()));
        }
        out.classes.sort();
        out.classes.dedup();
        let names: BTreeSet<String> = m.cons.iter().map(|c| c.name()).collect();
        if m.feature("alias") {
            out.classes.push("has:alias".into());
        }
        if m.feature("set_typed_var") {
            out.classes.push("has:set_var".into());
        }
        if m.search.is_some() {
            out.classes.push("has:search".into());
        }
        if m.goal != Goal::Satisfy {
            out.classes.push("goal:optimise".into());
        }
        let sols = m.solutions();
        let projection: BTreeSet<BTreeMap<String, String>> = sols.iter().map(|s| m.project(s)).collect();
        out.classes.push(if sols.is_empty() { "unsat" } else { "sat" }.into());

        let text = m.render();
        let input = scratch_file("fzn");
        std::fs::write(&input, &text).expect("write fzn");
        let mut args = vec![input.to_string_lossy().to_string(), "--random-seed".into(), case.seed.to_string()];
        if case.all_solutions {
            args.push("-a".into());
        }
        if case.free_search {
            args.push("-f".into());
        }
        if case.lus {
            args.push("--optimisation-strategy".into());
            args.push("linear-unsat-sat".into());
        }
        let o = run_cli(&args, Duration::from_secs(20));
        cleanup(&[&input]);
        if o.timed_out {
            out.inconclusive = true;
            out.notes.push(format!("TIMEOUT {:?}: {}", &args[1..], text.replace('\n', "\\n")));
            return Ok(out);
        }
        let flags = format!("{:?}", &args[1..]);
        if o.status != Some(0) || o.stdout.lines().any(|l| l.contains(" ERROR ")) {
            let kind = first_error_kind(&o);
            let which = names.iter().find(|n| o.stdout.contains(n.as_str()) || o.stderr.contains(n.as_str())).cloned().unwrap_or_default();
            return Err(Failure::new(
                format!("fzn:rejected-or-crashed:{}:{}", which, kind),
                format!("exit status {:?} with {flags} on a well-formed model; stdout {:?} stderr {:?}; model:\n{}", o.status, truncate(&o.stdout), truncate(&o.stderr), text),
            ));
        }
        let parsed = parse_fzn_output(&o.stdout).map_err(|e| Failure::new("fzn:malformed-output", format!("{e}; stdout {:?}; model:\n{}", truncate(&o.stdout), text)))?;
        if parsed.unknown {
            return Err(Failure::new("fzn:unknown-without-limit", format!("=====UNKNOWN===== without a time limit with {flags}; model:\n{}", text)));
        }
        for b in &parsed.blocks {
            if !projection.contains(b) {
                return Err(Failure::new(
                    "fzn:printed-non-solution",
                    format!("with {flags} the printed assignment {:?} does not extend to a solution ({} solutions, e.g. {:?}); model:\n{}", b, sols.len(), projection.iter().next(), text),
                ));
            }
        }
        if parsed.unsat != sols.is_empty() {
            return Err(Failure::new(
                if parsed.unsat { "fzn:unsat-but-sat" } else { "fzn:no-unsat-marker" },
                format!("with {flags}: unsatisfiable marker {} but the model has {} solutions (e.g. {:?}); stdout {:?}; model:\n{}", parsed.unsat, sols.len(), projection.iter().next(), truncate(&o.stdout), text),
            ));
        }
        if !sols.is_empty() && parsed.blocks.is_empty() {
            return Err(Failure::new("fzn:no-solution-printed", format!("with {flags} no solution was printed but {} exist; stdout {:?}; model:\n{}", sols.len(), truncate(&o.stdout), text)));
        }
        match &m.goal {
            Goal::Satisfy => {
                if case.all_solutions && !sols.is_empty() {
                    let printed: BTreeSet<_> = parsed.blocks.iter().cloned().collect();
                    if printed != projection {
                        let missing = projection.difference(&printed).next();
                        return Err(Failure::new("fzn:all-solutions-incomplete", format!("with {flags}: {} of {} projected solutions printed; missing e.g. {:?}; model:\n{}", printed.len(), projection.len(), missing, text)));
                    }
                    if !parsed.complete {
                        return Err(Failure::new("fzn:no-completeness-line", format!("with {flags}: all solutions printed but no ==========; model:\n{}", text)));
                    }
                }
                if !case.all_solutions && parsed.complete {
                    // a single solution of a satisfaction problem is not a complete search
                    return Err(Failure::new("fzn:completeness-line-after-one-solution", format!("with {flags}: ========== after a single solution; model:\n{}", text)));
                }
            }
            Goal::Min(v) | Goal::Max(v) => {
                if !sols.is_empty() {
                    let maximise = matches!(m.goal, Goal::Max(_));
                    let best = sols.iter().map(|s| s[*v]).fold(None, |acc: Option<i32>, x| Some(acc.map_or(x, |b| if maximise { b.max(x) } else { b.min(x) }))).unwrap();
                    let name = var_name(*v, &m.vars[*v]);
                    let last = parsed.blocks.last().unwrap();
                    let got = last.get(&name).and_then(|s| s.parse::<i32>().ok());
                    if got != Some(best) {
                        return Err(Failure::new("fzn:last-solution-not-optimal", format!("with {flags}: the last solution has {} = {:?} but the optimum is {}; stdout {:?}; model:\n{}", name, got, best, truncate(&o.stdout), text)));
                    }
                    if !parsed.complete {
                        return Err(Failure::new("fzn:no-completeness-line", format!("with {flags}: optimal solution printed but no ==========; model:\n{}", text)));
                    }
                    if !case.all_solutions && parsed.blocks.len() != 1 {
                        return Err(Failure::new("fzn:intermediate-solutions-without-a", format!("with {flags}: {} solutions printed without -a; model:\n{}", parsed.blocks.len(), text)));
                    }
                }
            }
        }
        let structure = m.feature("alias") || m.feature("set_typed_var") || !m.arrays.is_empty() || m.search.is_some() || m.params.iter().any(|p| matches!(p, FParam::IntArray(_) | FParam::BoolArray(_)));
        if names.len() >= 2 && structure {
            out.nontrivial = Some(hash_of(m));
        }
        out.observed = Some(json!({"solutions": sols.len(), "projected": projection.len(), "blocks": parsed.blocks.len(), "flags": flags}));
        Ok(out)
    }
}
