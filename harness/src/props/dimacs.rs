//! C14 (DIMACS CNF verdicts + DRAT proofs) and C15 (MaxSAT optimum) through the real command-line
//! solver.
use std::time::Duration;

use proptest::prelude::*;
use serde::{Deserialize, Serialize};
use serde_json::json;

use crate::cli::*;
use crate::ir::hash_of;
use crate::runner::*;

// ------------------------------------------------------------------------------------------
// shared

/// forward RUP check: every proof clause must follow by unit propagation from the formula and the
/// earlier proof clauses; the last clause must be empty. Returns Err(description).
pub fn check_rup(num_vars: usize, formula: &[Vec<i32>], proof: &[Vec<i32>]) -> Result<(), String> {
    // clauses are sets of literals
    let dedup = |c: &Vec<i32>| {
        let mut c = c.clone();
        c.sort_unstable();
        c.dedup();
        c
    };
    let mut db: Vec<Vec<i32>> = formula.iter().map(dedup).collect();
    if proof.is_empty() {
        return Err("the proof is empty".into());
    }
    for (i, c) in proof.iter().enumerate() {
        if c.iter().any(|l| l.unsigned_abs() as usize > num_vars || *l == 0) {
            return Err(format!("proof clause #{i} {:?} mentions an unknown variable", c));
        }
        // assignment: 0 unassigned, 1 true, -1 false (indexed by variable)
        let mut val = vec![0i8; num_vars + 1];
        let mut conflict = false;
        for l in c {
            let v = l.unsigned_abs() as usize;
            let want = if *l > 0 { -1 } else { 1 };
            if val[v] == -want {
                conflict = true; // tautological clause: trivially implied
            }
            val[v] = want;
        }
        while !conflict {
            let mut changed = false;
            for d in &db {
                let mut unassigned = 0;
                let mut last = 0;
                let mut sat = false;
                for l in d {
                    let v = l.unsigned_abs() as usize;
                    let lit_val = if *l > 0 { val[v] } else { -val[v] };
                    if lit_val == 1 {
                        sat = true;
                        break;
                    }
                    if lit_val == 0 {
                        unassigned += 1;
                        last = *l;
                    }
                }
                if sat {
                    continue;
                }
                if unassigned == 0 {
                    conflict = true;
                    break;
                }
                if unassigned == 1 {
                    let v = last.unsigned_abs() as usize;
                    val[v] = if last > 0 { 1 } else { -1 };
                    changed = true;
                }
            }
            if !changed {
                break;
            }
        }
        if !conflict {
            return Err(format!("proof clause #{i} {:?} does not follow by unit propagation", c));
        }
        db.push(dedup(c));
    }
    if !proof.last().unwrap().is_empty() {
        return Err(format!("the proof ends with {:?} instead of the empty clause", proof.last().unwrap()));
    }
    Ok(())
}

pub fn parse_proof(text: &str) -> Result<Vec<Vec<i32>>, String> {
    let mut out = vec![];
    for line in text.lines() {
        let line = line.trim();
        if line.is_empty() || line.starts_with('c') {
            continue;
        }
        if line.starts_with('d') {
            continue;
        }
        let mut c = vec![];
        let mut terminated = false;
        for tok in line.split_whitespace() {
            let x: i32 = tok.parse().map_err(|_| format!("bad token {tok:?} in proof line {line:?}"))?;
            if x == 0 {
                terminated = true;
                break;
            }
            c.push(x);
        }
        if !terminated {
            return Err(format!("unterminated proof line {line:?}"));
        }
        out.push(c);
    }
    Ok(out)
}

fn brute_force_sat(num_vars: usize, clauses: &[Vec<i32>]) -> Option<Vec<bool>> {
    for bits in 0u32..(1u32 << num_vars) {
        let val = |l: i32| {
            let b = bits >> (l.unsigned_abs() - 1) & 1 == 1;
            if l > 0 {
                b
            } else {
                !b
            }
        };
        if clauses.iter().all(|c| c.iter().any(|l| val(*l))) {
            return Some((0..num_vars).map(|i| bits >> i & 1 == 1).collect());
        }
    }
    None
}

// ------------------------------------------------------------------------------------------
// C14

#[derive(Clone, Debug, Serialize, Deserialize, Hash)]
pub struct CnfCase {
    pub num_vars: usize,
    pub clauses: Vec<Vec<i32>>,
    /// layout seeds: one rendering per entry
    pub layouts: Vec<u32>,
    pub with_proof: bool,
    pub seed: u64,
    /// learning options passed on the command line (0: defaults), see `learning_args`
    #[serde(default)]
    pub opts: u8,
}

/// Small nogood-database limits make clean-up, id reuse and LBD tiers run on small formulas.
fn learning_args(opts: u8) -> Vec<String> {
    if opts % 3 == 0 {
        return vec![];
    }
    let max_clauses = [0, 1, 2, 4, 8][(opts as usize / 3) % 5];
    let lbd = [0, 1, 2, 3][(opts as usize / 15) % 4];
    let mut v = vec!["--learning-max-num-clauses".to_string(), max_clauses.to_string(), "--learning-lbd-threshold".to_string(), lbd.to_string()];
    if opts >= 128 {
        v.push("--no-learning-minimise".to_string());
    }
    v
}

pub struct CnfProp;

/// Render a formula; the layout bits select comments, line breaks inside clauses, several clauses
/// per line, tabs / multiple blanks / CRLF, leading blanks and a missing final newline.
pub fn render_cnf(num_vars: usize, clauses: &[Vec<i32>], layout: u32) -> String {
    let bit = |i: u32| layout >> i & 1 == 1;
    let nl = if bit(0) { "\r\n" } else { "\n" };
    let mut s = String::new();
    if bit(1) {
        s.push_str(&format!("c generated formula{nl}c  second comment line{nl}"));
    }
    if bit(2) {
        s.push_str(nl);
    }
    s.push_str(&format!("p cnf {} {}{}", num_vars, clauses.len(), nl));
    if bit(3) {
        s.push_str(&format!("c comment after the header{nl}"));
    }
    if bit(13) {
        // a block of comment lines which ends around byte 8192, the size of the chunks in which the file is read:
        // one of the lines (or the first clause lines) straddles the boundary
        let target = 8192 - 60 + ((layout >> 14) % 200) as usize;
        let mut k = layout as u64 | 1;
        while s.len() < target {
            k = k.wrapping_mul(6364136223846793005).wrapping_add(1442695040888963407);
            let len = 10 + (k >> 40) as usize % 120;
            s.push_str("c ");
            // the filler looks like clause data: digits, blanks and minus signs
            for j in 0..len.min(target + 40 - s.len().min(target + 40)) {
                s.push(match (k >> (j % 48)) & 3 {
                    0 => ' ',
                    1 => '1',
                    2 => '2',
                    _ => '-',
                });
            }
            s.push_str(nl);
        }
    }
    let sep = if bit(4) { "  " } else if bit(5) { "\t" } else { " " };
    let mut at_line_start = true;
    for (i, c) in clauses.iter().enumerate() {
        if bit(6) && i % 3 == 1 && at_line_start {
            s.push_str(&format!("c between clauses {i}{nl}"));
        }
        if bit(7) && at_line_start {
            s.push_str("  ");
        }
        for (j, l) in c.iter().enumerate() {
            s.push_str(&l.to_string());
            // a line break inside a clause; keep a blank before it: a literal which is directly
            // followed by a line break and a comment line is a separate (counted) layout class
            if bit(8) && j == 0 && c.len() > 1 {
                s.push(' ');
                s.push_str(nl);
                if bit(9) {
                    s.push_str(&format!("c comment inside a clause{nl}"));
                }
            } else {
                s.push_str(sep);
            }
        }
        s.push('0');
        // several clauses per line
        if bit(10) && i % 2 == 0 && i + 1 < clauses.len() {
            s.push(' ');
            at_line_start = false;
        } else if i + 1 < clauses.len() || !bit(11) {
            s.push_str(nl);
            at_line_start = true;
        } else {
            at_line_start = false;
        }
    }
    if bit(12) && !bit(11) {
        s.push_str(&format!("c trailing comment{nl}"));
    }
    s
}

fn clause_strategy(num_vars: usize) -> BoxedStrategy<Vec<i32>> {
    let lit = (1..=num_vars.max(1) as i32, any::<bool>()).prop_map(|(v, s)| if s { v } else { -v });
    prop_oneof![
        1 => Just(vec![]),
        3 => proptest::collection::vec(lit.clone(), 1..=1),
        4 => proptest::collection::vec(lit.clone(), 2..=2),
        10 => proptest::collection::vec(lit.clone(), 3..=3),
        2 => proptest::collection::vec(lit, 4..=5),
    ]
    .boxed()
}

impl Property for CnfProp {
    type Case = CnfCase;
    fn id(&self) -> &'static str {
        "C14"
    }
    fn rule(&self) -> String {
        "random CNF formulas (0-14 variables, 0-60 clauses with ratio biased to 3.5-5, widths 0-5 incl. empty formula, empty clause, units, duplicate / tautological clauses, duplicate literals; thorough adds 30-60 variable random 3-SAT) rendered in 3 layouts each (comments before/after the header, between clauses and inside a clause, several clauses per line, clauses split over lines, tabs / multiple blanks / CRLF / leading blanks, with/without final newline) and run through the real command-line binary: the verdict must equal brute force, the v line must assign every variable and satisfy every clause, all layouts give the same verdict, and with --proof-path an UNSAT verdict must come with a proof which passes the harness's forward RUP checker and ends in the empty clause. evaluations counts solver runs. Non-trivial: >=3 variables, a clause of width >=2 and (UNSAT with a proof of >=2 clauses, or SAT); distinct by hash of the formula.".into()
    }
    fn assumptions(&self) -> Vec<String> {
        vec![
            "the binary under test is built from /repo's working tree by build_cli.sh".into(),
            "the header is rendered with single blanks (blank runs inside the p line are a separate finding class)".into(),
            "a process which exceeds 20 s is killed and counted inconclusive".into(),
        ]
    }
    fn strategy(&self, tier: Tier) -> BoxedStrategy<CnfCase> {
        let small = (0usize..=14).prop_flat_map(|n| {
            let max_clauses = (n * 5 + 4).min(60);
            (Just(n), proptest::collection::vec(clause_strategy(n), 0..=max_clauses))
        });
        let large = (30usize..=60).prop_flat_map(|n| {
            let m = (n as f64 * 4.3) as usize;
            (Just(n), proptest::collection::vec(clause_strategy(n), m - 5..=m + 5))
        });
        // random 3-SAT around the satisfiability threshold with 15-26 variables: hard enough for dozens of
        // conflicts, small enough for the certificate checks (model evaluation, RUP check of the proof)
        let three_lit = |n: usize| proptest::collection::vec((1..=n as i32, any::<bool>()).prop_map(|(v, s)| if s { v } else { -v }), 3..=3);
        let medium = (15usize..=26).prop_flat_map(move |n| {
            let m = (n as f64 * 4.3) as usize;
            (Just(n), proptest::collection::vec(three_lit(n), m - 4..=m + 4))
        });
        let formula = if tier == Tier::Quick { prop_oneof![5 => small, 2 => medium].boxed() } else { prop_oneof![6 => small, 3 => medium, 1 => large].boxed() };
        (formula, proptest::collection::vec(any::<u32>(), 3..=3), any::<bool>(), 0u64..4, any::<u8>())
            .prop_map(|((num_vars, mut clauses), layouts, with_proof, seed, opts)| {
                if num_vars == 0 {
                    clauses.retain(|c| c.is_empty());
                }
                // beyond brute force an UNSAT verdict can only be judged through its proof
                let with_proof = with_proof || num_vars > 16;
                CnfCase { num_vars, clauses, layouts, with_proof, seed, opts }
            })
            .boxed()
    }
    fn cases(&self, tier: Tier) -> u64 {
        match tier {
            Tier::Quick => 15_000,
            Tier::Thorough => 150_000,
        }
    }
    fn floors(&self, _tier: Tier) -> Vec<(&'static str, f64)> {
        vec![("unsat", 0.2), ("sat", 0.2), ("proof_checked", 0.08), ("degenerate", 0.1)]
    }
    fn feature(&self, case: &CnfCase, name: &str) -> bool {
        match name {
            "comment_inside_clause" => case.layouts.iter().any(|l| l >> 8 & 1 == 1 && l >> 9 & 1 == 1),
            _ => false,
        }
    }
    fn run(&self, case: &CnfCase) -> Verdict {
        let mut out = Outcome::default();
        let n = case.num_vars;
        let reference = if n <= 16 { Some(brute_force_sat(n, &case.clauses)) } else { None };
        let degenerate = case.clauses.is_empty() || case.clauses.iter().any(|c| c.is_empty()) || {
            let mut sorted = case.clauses.clone();
            sorted.sort();
            sorted.windows(2).any(|w| w[0] == w[1])
        } || case.clauses.iter().any(|c| c.iter().any(|l| c.contains(&-l)));
        if degenerate {
            out.classes.push("degenerate".into());
        }
        let mut verdicts: Vec<(u32, DimacsVerdict)> = vec![];
        let mut runs = 0u64;
        let mut proof_len = 0;
        for (li, layout) in case.layouts.iter().enumerate() {
            let text = render_cnf(n, &case.clauses, *layout);
            let input = scratch_file("cnf");
            std::fs::write(&input, &text).expect("write cnf");
            let proof_path = scratch_file("drat");
            let mut args = vec![input.to_string_lossy().to_string(), "--random-seed".into(), case.seed.to_string()];
            args.extend(learning_args(case.opts));
            let use_proof = case.with_proof && li == 0;
            if use_proof {
                args.push("--proof-path".into());
                args.push(proof_path.to_string_lossy().to_string());
            }
            let o = run_cli(&args, Duration::from_secs(20));
            runs += 1;
            let proof_text = std::fs::read_to_string(&proof_path).ok();
            cleanup(&[&input, &proof_path]);
            if o.timed_out {
                out.inconclusive = true;
                continue;
            }
            let what = format!("layout {:#x}", layout);
            if o.status != Some(0) {
                return Err(Failure::new(
                    format!("cnf:rejected-or-crashed:{}", first_error_kind(&o)),
                    format!("[{what}] exit status {:?} on a well-formed file; stdout {:?} stderr {:?}; file:\n{}", o.status, truncate(&o.stdout), truncate(&o.stderr), text),
                ));
            }
            let v = parse_dimacs_output(&o.stdout);
            match &v {
                DimacsVerdict::Sat(model) => {
                    let mut val = vec![None; n + 1];
                    for l in model {
                        let var = l.unsigned_abs() as usize;
                        if var == 0 || var > n {
                            return Err(Failure::new("cnf:model-unknown-variable", format!("[{what}] v line mentions {l}")));
                        }
                        val[var] = Some(*l > 0);
                    }
                    if let Some(missing) = (1..=n).find(|i| val[*i].is_none()) {
                        return Err(Failure::new("cnf:model-incomplete", format!("[{what}] variable {missing} is not assigned by the v line {:?}", model)));
                    }
                    if let Some(c) = case.clauses.iter().find(|c| !c.iter().any(|l| val[l.unsigned_abs() as usize] == Some(*l > 0))) {
                        return Err(Failure::new("cnf:model-falsifies-clause", format!("[{what}] clause {:?} is falsified by {:?}", c, model)));
                    }
                    if reference == Some(None) {
                        return Err(Failure::new("cnf:sat-but-unsat", format!("[{what}] SATISFIABLE but brute force finds no model")));
                    }
                }
                DimacsVerdict::Unsat => {
                    if let Some(Some(m)) = &reference {
                        return Err(Failure::new("cnf:unsat-but-sat", format!("[{what}] UNSATISFIABLE but {:?} is a model; file:\n{}", m, text)));
                    }
                    if use_proof {
                        let Some(pt) = proof_text else {
                            return Err(Failure::new("cnf:proof-missing", format!("[{what}] no proof file was written")));
                        };
                        let proof = parse_proof(&pt).map_err(|e| Failure::new("cnf:proof-malformed", format!("[{what}] {e}")))?;
                        if let Err(e) = check_rup(n, &case.clauses, &proof) {
                            return Err(Failure::new("cnf:proof-invalid", format!("[{what}] {e}; proof:\n{}\nfile:\n{}", truncate(&pt), text)));
                        }
                        proof_len = proof.len();
                        out.classes.push("proof_checked".into());
                        out.counters.push(("proofs_checked".into(), 1));
                    }
                }
                DimacsVerdict::Unknown => {
                    return Err(Failure::new("cnf:unknown-without-limit", format!("[{what}] s UNKNOWN without a time limit")));
                }
                other => {
                    return Err(Failure::new("cnf:malformed-output", format!("[{what}] {:?}; stdout {:?}", other, truncate(&o.stdout))));
                }
            }
            verdicts.push((*layout, v));
        }
        let kinds: Vec<bool> = verdicts.iter().map(|(_, v)| matches!(v, DimacsVerdict::Sat(_))).collect();
        if kinds.windows(2).any(|w| w[0] != w[1]) {
            return Err(Failure::new("cnf:layouts-disagree", format!("layouts {:?} give different verdicts: {:?}", case.layouts, verdicts)));
        }
        out.sub_evals = runs.saturating_sub(1);
        let is_sat = kinds.first().copied().unwrap_or(false);
        out.classes.push(if is_sat { "sat" } else { "unsat" }.into());
        if n >= 3 && case.clauses.iter().any(|c| c.len() >= 2) && (is_sat || proof_len >= 2) {
            out.nontrivial = Some(hash_of(&(case.num_vars, &case.clauses)));
        }
        out.observed = Some(json!({"vars": n, "clauses": case.clauses.len(), "sat": is_sat, "proof_clauses": proof_len}));
        Ok(out)
    }
}

pub fn truncate(s: &str) -> String {
    if s.len() > 1500 {
        format!("{}…[{} bytes]", &s[..1500], s.len())
    } else {
        s.to_string()
    }
}

/// a short classification of the error a run ended with (for signatures)
pub fn first_error_kind(o: &CliOut) -> String {
    let all = format!("{}\n{}", o.stdout, o.stderr);
    if let Some(line) = all.lines().find(|l| l.contains("panicked at")) {
        let file = line.split("panicked at ").nth(1).unwrap_or("").split(':').next().unwrap_or("");
        let file = file.rsplit("/src/").next().unwrap_or(file);
        let msg = all.lines().skip_while(|l| !l.contains("panicked at")).nth(1).unwrap_or("").trim();
        return format!("panic:{}:{}", file, abstract_numbers(msg));
    }
    if let Some(line) = all.lines().find(|l| l.contains("error") || l.contains("Error")) {
        return format!("error:{}", abstract_numbers(line.trim()).chars().take(80).collect::<String>());
    }
    "unknown".into()
}

// ------------------------------------------------------------------------------------------
// C15

#[derive(Clone, Debug, Serialize, Deserialize, Hash)]
pub struct WcnfCase {
    pub num_vars: usize,
    pub hard: Vec<Vec<i32>>,
    pub soft: Vec<(u32, Vec<i32>)>,
    pub seed: u64,
    /// the generalized totalizer is additionally run with the random seeds seed+1 ..= seed+extra_seeds
    #[serde(default)]
    pub extra_seeds: u8,
}

pub struct WcnfProp;

pub fn render_wcnf(case: &WcnfCase) -> (String, u64) {
    let top: u64 = case.soft.iter().map(|(w, _)| *w as u64).sum::<u64>() + 1;
    let mut s = format!("c generated\np wcnf {} {} {}\n", case.num_vars, case.hard.len() + case.soft.len(), top);
    // interleave hard and soft clauses deterministically
    let mut hi = 0;
    let mut si = 0;
    let mut k = 0u64;
    while hi < case.hard.len() || si < case.soft.len() {
        let take_hard = si >= case.soft.len() || (hi < case.hard.len() && (case.seed + k) % 3 != 0);
        if take_hard {
            s.push_str(&format!("{} {}0\n", top, case.hard[hi].iter().map(|l| format!("{l} ")).collect::<String>()));
            hi += 1;
        } else {
            s.push_str(&format!("{} {}0\n", case.soft[si].0, case.soft[si].1.iter().map(|l| format!("{l} ")).collect::<String>()));
            si += 1;
        }
        k += 1;
    }
    (s, top)
}

impl Property for WcnfProp {
    type Case = WcnfCase;
    fn id(&self) -> &'static str {
        "C15"
    }
    fn rule(&self) -> String {
        "random WCNF instances in the `p wcnf n m top` format (1-10 variables, 0-20 hard and 1-20 soft clauses; soft clauses unit / empty / duplicated / equal to a hard clause / decided at the root by hard units; weights 1-5 or large weights up to 2^31-1 whose sum exceeds 2^32; hard part satisfiable in most cases; 3 in 16 cases from a 'slack' family of 2-4 variables with an empty soft clause, one or two heavy and a few light soft clauses, run with five random seeds), each run through the real binary with both --upper-bound-encoding values: with satisfiable hard clauses the status must be OPTIMUM FOUND, the last o line and the cost of the v model recomputed from the file must equal the brute-force minimum and the model must satisfy the hard clauses; otherwise UNSATISFIABLE; both encodings agree. evaluations counts solver runs. Non-trivial: >=2 o lines or a soft clause decided at the root; distinct by hash of the instance.".into()
    }
    fn assumptions(&self) -> Vec<String> {
        vec!["top weight = sum of soft weights + 1 (< 2^63)".into(), "a process which exceeds 20 s is killed and counted inconclusive".into()]
    }
    fn strategy(&self, _tier: Tier) -> BoxedStrategy<WcnfCase> {
        (1usize..=10)
            .prop_flat_map(|n| {
                let lit = (1..=n as i32, any::<bool>()).prop_map(|(v, s)| if s { v } else { -v });
                let hard_clause = prop_oneof![2 => proptest::collection::vec(lit.clone(), 1..=1), 6 => proptest::collection::vec(lit.clone(), 2..=3)];
                let soft_clause = prop_oneof![
                    1 => Just(vec![]),
                    4 => proptest::collection::vec(lit.clone(), 1..=1),
                    5 => proptest::collection::vec(lit.clone(), 2..=3),
                ];
                let weight = prop_oneof![8 => 1u32..=5, 1 => prop_oneof![Just(i32::MAX as u32), Just(1u32 << 30), (1u32 << 29)..(i32::MAX as u32)]];
                (
                    Just(n),
                    proptest::collection::vec(hard_clause, 0..=(n * 2).min(20)),
                    proptest::collection::vec((weight, soft_clause), 1..=20),
                    any::<u8>(),
                    0u64..4,
                )
            })
            .prop_map(|(mut num_vars, mut hard, mut soft, dup, mut seed)| {
                // slack family (3 in 16 cases): tiny instances in which the first improvement step
                // fixes the heavy objective literals and the remaining light weights fit into the slack, with
                // weight already lost at the root (an empty soft clause); five random seeds
                let slack_family = dup >= 208;
                let mut extra_seeds = 0;
                if slack_family {
                    num_vars = num_vars.min(2 + (dup as usize / 4) % 3);
                    let fold = |c: &mut Vec<i32>| {
                        for l in c.iter_mut() {
                            let v = (l.unsigned_abs() as usize - 1) % num_vars + 1;
                            *l = if *l > 0 { v as i32 } else { -(v as i32) };
                        }
                    };
                    hard.truncate((dup as usize / 16) % 4);
                    hard.iter_mut().for_each(fold);
                    soft.truncate(3 + (dup as usize) % 6);
                    let heavy = 1 + (dup as usize / 2) % 2;
                    for (i, s) in soft.iter_mut().enumerate() {
                        fold(&mut s.1);
                        let r = s.0 % 64;
                        s.0 = if i < heavy { 5 + r % 8 } else { 1 + r % 3 };
                    }
                    let w0 = 2 + (soft[0].0 + dup as u32) % 5;
                    soft.push((w0, vec![]));
                    seed = seed * 16 + (dup as u64 / 4) % 16;
                    extra_seeds = 4;
                }
                // 40% unweighted instances (both encodings apply)
                if !slack_family && dup % 5 < 3 {
                    let w = if dup % 5 == 2 { soft[0].0 } else { 1 };
                    for s in soft.iter_mut() {
                        s.0 = w;
                    }
                }
                // duplicates of soft clauses and of hard clauses among the soft ones
                if !slack_family && dup % 4 == 0 && !soft.is_empty() {
                    let c = soft[0].clone();
                    soft.push(c);
                }
                if !slack_family && dup % 4 == 1 && !hard.is_empty() {
                    soft.push((2, hard[0].clone()));
                }
                // the parser reads weights (and the top weight) as 32-bit literals and the format asks for
                // top > sum of the soft weights: keep the sum below 2^31 - 1
                loop {
                    let sum: u64 = soft.iter().map(|(w, _)| *w as u64).sum();
                    if sum < i32::MAX as u64 {
                        break;
                    }
                    let i = (0..soft.len()).max_by_key(|i| soft[*i].0).unwrap();
                    soft[i].0 = (soft[i].0 / 2).max(1);
                }
                WcnfCase { num_vars, hard, soft, seed, extra_seeds }
            })
            .boxed()
    }
    fn cases(&self, tier: Tier) -> u64 {
        match tier {
            Tier::Quick => 40_000,
            Tier::Thorough => 400_000,
        }
    }
    fn floors(&self, _tier: Tier) -> Vec<(&'static str, f64)> {
        vec![("hard_sat", 0.5), ("improved_or_root", 0.2), ("cne_run", 0.1)]
    }
    fn feature(&self, case: &WcnfCase, name: &str) -> bool {
        match name {
            "hard_unsat" => brute_force_sat(case.num_vars, &case.hard).is_none(),
            // the objective handed to the cardinality network does not consist of distinct literals of weight 1
            "cne_non_unit_objective" => {
                let units: Vec<i32> = case.soft.iter().filter(|(_, c)| c.len() == 1).map(|(_, c)| c[0]).collect();
                let mut sorted = units.clone();
                sorted.sort_unstable();
                sorted.dedup();
                case.soft.iter().any(|(w, _)| *w != 1) || sorted.len() != units.len()
            }
            "weight_sum_exceeds_u32" => case.soft.iter().map(|(w, _)| *w as u64).sum::<u64>() > u32::MAX as u64,
            "weight_sum_exceeds_i32" => case.soft.iter().map(|(w, _)| *w as u64).sum::<u64>() > i32::MAX as u64,
            _ => false,
        }
    }
    fn run(&self, case: &WcnfCase) -> Verdict {
        let mut out = Outcome::default();
        let n = case.num_vars;
        // brute force
        let mut best: Option<u64> = None;
        for bits in 0u32..(1u32 << n) {
            let val = |l: i32| {
                let b = bits >> (l.unsigned_abs() - 1) & 1 == 1;
                if l > 0 {
                    b
                } else {
                    !b
                }
            };
            if case.hard.iter().all(|c| c.iter().any(|l| val(*l))) {
                let cost: u64 = case.soft.iter().filter(|(_, c)| !c.iter().any(|l| val(*l))).map(|(w, _)| *w as u64).sum();
                best = Some(best.map_or(cost, |b| b.min(cost)));
            }
        }
        out.classes.push(if best.is_some() { "hard_sat" } else { "hard_unsat" }.into());
        let total: u64 = case.soft.iter().map(|(w, _)| *w as u64).sum();
        if total > (1u64 << 30) {
            out.classes.push("weights_large".into());
        }
        let (text, _top) = render_wcnf(case);
        let mut optima = vec![];
        let mut improved = false;
        // the cardinality network encoding is documented to support unweighted instances only
        let unweighted = case.soft.windows(2).all(|w| w[0].0 == w[1].0);
        if unweighted {
            out.classes.push("unweighted".into());
        }
        // known finding KF-cne-non-unit-objective: the cardinality network is only run when the objective
        // consists of distinct literals of weight 1 (other unweighted instances are excluded by construction,
        // unless the case is replayed from the regress directory)
        let cne_ok = unweighted && (!self.feature(case, "cne_non_unit_objective") || case.seed >= 100);
        if unweighted && !cne_ok {
            out.counters.push(("excluded_by_known_finding_cne".into(), 1));
        }
        let encodings: &[&str] = if cne_ok { &["generalized-totalizer", "cardinality-network"] } else { &["generalized-totalizer"] };
        let mut runs: Vec<(&str, u64)> = encodings.iter().map(|e| (*e, case.seed)).collect();
        for k in 1..=case.extra_seeds as u64 {
            runs.push(("generalized-totalizer", case.seed + k));
        }
        if case.extra_seeds > 0 {
            out.classes.push("slack_family".into());
        }
        let mut non_monotone = false;
        for (enc, run_seed) in runs.iter().copied() {
            let input = scratch_file("wcnf");
            std::fs::write(&input, &text).expect("write wcnf");
            let args = vec![input.to_string_lossy().to_string(), "--upper-bound-encoding".into(), enc.into(), "--random-seed".into(), run_seed.to_string()];
            let o = run_cli(&args, Duration::from_secs(20));
            cleanup(&[&input]);
            if o.timed_out {
                out.inconclusive = true;
                out.notes.push(format!("TIMEOUT encoding {enc} seed {}: {}", run_seed, text.replace('\n', "\\n")));
                continue;
            }
            let what = format!("encoding {enc}, random seed {run_seed}");
            let tag = if enc == "cardinality-network" { "cne" } else { "gte" };
            if o.status != Some(0) {
                return Err(Failure::new(
                    format!("wcnf:{tag}:rejected-or-crashed:{}", first_error_kind(&o)),
                    format!("[{what}] exit status {:?}; stdout {:?} stderr {:?}; file:\n{}", o.status, truncate(&o.stdout), truncate(&o.stderr), text),
                ));
            }
            match parse_dimacs_output(&o.stdout) {
                DimacsVerdict::Optimum { cost, model, o_lines } => {
                    let Some(best) = best else {
                        return Err(Failure::new(format!("wcnf:{tag}:optimum-but-hard-unsat"), format!("[{what}] OPTIMUM FOUND but the hard clauses are unsatisfiable; file:\n{}", text)));
                    };
                    let mut val = vec![None; n + 1];
                    for l in &model {
                        let var = l.unsigned_abs() as usize;
                        if var >= 1 && var <= n {
                            val[var] = Some(*l > 0);
                        }
                    }
                    if let Some(missing) = (1..=n).find(|i| val[*i].is_none()) {
                        return Err(Failure::new(format!("wcnf:{tag}:model-incomplete"), format!("[{what}] variable {missing} not assigned in {:?}", model)));
                    }
                    let sat = |c: &Vec<i32>| c.iter().any(|l| val[l.unsigned_abs() as usize] == Some(*l > 0));
                    if let Some(c) = case.hard.iter().find(|c| !sat(c)) {
                        return Err(Failure::new(format!("wcnf:{tag}:model-falsifies-hard-clause"), format!("[{what}] hard clause {:?} falsified by {:?}", c, model)));
                    }
                    let model_cost: u64 = case.soft.iter().filter(|(_, c)| !sat(c)).map(|(w, _)| *w as u64).sum();
                    if model_cost != best {
                        return Err(Failure::new(format!("wcnf:{tag}:model-not-optimal"), format!("[{what}] the printed model has cost {model_cost} but the optimum is {best}; file:\n{}", text)));
                    }
                    if cost != Some(best) {
                        return Err(Failure::new(format!("wcnf:{tag}:objective-line-wrong"), format!("[{what}] last o line {:?} (all: {:?}) but the optimum is {best}; file:\n{}", cost, o_lines, text)));
                    }
                    if o_lines.len() >= 2 {
                        improved = true;
                    }
                    if o_lines.windows(2).any(|w| w[1] > w[0]) {
                        non_monotone = true;
                    }
                    optima.push(best);
                }
                DimacsVerdict::Unsat => {
                    if let Some(b) = best {
                        return Err(Failure::new(format!("wcnf:{tag}:unsat-but-hard-sat"), format!("[{what}] UNSATISFIABLE but the hard clauses are satisfiable (optimum {b}); file:\n{}", text)));
                    }
                }
                other => {
                    return Err(Failure::new(format!("wcnf:{tag}:unexpected-output"), format!("[{what}] {:?}; stdout {:?}; file:\n{}", other, truncate(&o.stdout), text)));
                }
            }
        }
        out.sub_evals = runs.len() as u64 - 1;
        if non_monotone {
            // not a violation (only the last o line is specified), but the situation in which the
            // incumbent and its value can get out of step
            out.classes.push("o_lines_not_monotone".into());
        }
        if cne_ok {
            out.classes.push("cne_run".into());
        }
        // soft clause decided at the root by hard units
        let units: Vec<i32> = case.hard.iter().filter(|c| c.len() == 1).map(|c| c[0]).collect();
        let root_decided = case.soft.iter().any(|(_, c)| c.is_empty() || c.iter().any(|l| units.contains(l)) || c.iter().all(|l| units.contains(&-l)));
        if improved || root_decided {
            out.classes.push("improved_or_root".into());
            if best.is_some() {
                out.nontrivial = Some(hash_of(case));
            }
        }
        out.observed = Some(json!({"optimum": best, "soft": case.soft.len(), "hard": case.hard.len()}));
        Ok(out)
    }
}
