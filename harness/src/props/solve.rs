//! C01 (every handed-out solution is a solution) and C02 (verdicts equal true satisfiability).
//! One generated case is solved through one of the hand-out paths of the API; C01 judges the
//! solutions, C02 judges the verdicts against the exhaustive reference.
use proptest::prelude::*;
use serde::{Deserialize, Serialize};
use serde_json::json;

use crate::adapter::*;
use crate::gen::*;
use crate::ir::*;
use crate::ops::*;
use crate::runner::*;
use crate::sem;

#[derive(Clone, Debug, Serialize, Deserialize)]
pub struct SolveCase {
    pub model: Model,
    pub cfg: Config,
    /// 0 satisfy, 1 iterate, 2 assumptions, 3 optimise SAT-UNSAT, 4 optimise UNSAT-SAT
    pub path: u8,
    pub objective: Term,
    pub maximise: bool,
    pub assumptions: Vec<Pred>,
    /// large models (hundreds of variables) cannot be enumerated: they are built around this assignment and
    /// judged by certificate (the verdict must not be Unsatisfiable, a returned solution is evaluated)
    #[serde(default)]
    pub witness: Option<Vec<i32>>,
}

/// A model with a long implication chain: 500-720 0-1 variables with x_i <= x_{i+1}, a planted monotone
/// assignment, and a few dozen clauses / small linear constraints which the planted assignment satisfies.
/// Code which depends on the length of implication chains or on the number of variables (depth caps of
/// recursive procedures, activity rescaling, trail growth) is out of reach of the 8-variable models.
pub fn build_chain_model(raw: &[(u16, u8, u16)], extra: (u16, i8, i8)) -> (Model, Vec<i32>) {
    let n = 500 + (extra.0 as usize % 220);
    let threshold = (extra.0 as usize / 7) % (n + 1);
    let witness: Vec<i32> = (0..n).map(|i| (i >= threshold) as i32).collect();
    let vars: Vec<VarDecl> = (0..n).map(|_| VarDecl::Interval { lb: 0, ub: 1 }).collect();
    let mut cons: Vec<Posted> = (0..n - 1).map(|i| Posted::plain(Cons::BinLe { a: Term::plain(i), b: Term::plain(i + 1) })).collect();
    // entropy for the cross constraints: a simple congruential stream seeded by the raw values
    let mut state: u64 = raw.iter().fold(0x9E37_79B9_7F4A_7C15 ^ extra.0 as u64, |acc, r| acc.wrapping_mul(6364136223846793005).wrapping_add(r.0 as u64 * 65537 + r.1 as u64 * 257 + r.2 as u64));
    let mut next = |m: usize| {
        state = state.wrapping_mul(6364136223846793005).wrapping_add(1442695040888963407);
        ((state >> 33) as usize) % m.max(1)
    };
    // variables for the cross constraints: half of the picks come from the two ends of the chain, so that a
    // conflict tends to involve predicates which are hundreds of propagation steps apart
    let mut pick_var = |next: &mut dyn FnMut(usize) -> usize| match next(4) {
        0 => next(n / 20 + 1),
        1 => n - 1 - next(n / 20 + 1),
        _ => next(n),
    };
    // switches: a Boolean which, when true, forces a variable near the top of the chain to 0 (or one near the
    // bottom to 1). Such a switch conflicts with the far end of a chain which an earlier decision at the other
    // end set off, i.e. with a predicate whose reasons go back hundreds of propagation steps to a decision
    // outside of the conflict - the situation in which depth-limited procedures of conflict analysis matter.
    let mut vars = vars;
    let mut witness = witness;
    let switches = 2 + next(6);
    for _ in 0..switches {
        let sw = vars.len();
        vars.push(VarDecl::Bool);
        let (target, c) = if next(2) == 0 {
            let hi = n - 1 - next(n / 25 + 1);
            (hi, Cons::LinLe { terms: vec![Term::plain(hi)], rhs: 0 })
        } else {
            let lo = next(n / 25 + 1);
            (lo, Cons::LinLe { terms: vec![Term { var: lo, scale: -1, offset: 0 }], rhs: -1 })
        };
        let holds = sem::holds(&c, &{
            let mut w = witness.clone();
            w.push(0);
            w
        });
        let _ = target;
        // the planted value of the switch: true whenever the planted assignment allows it (three times out of four)
        witness.push((holds && next(4) != 0) as i32);
        cons.push(Posted { cons: c, mode: Mode::ImpliedBy(Lit { var: sw, neg: false }), tag: false });
    }
    // clause pairs: (e \/ !y \/ !z) and (e \/ !y \/ z) where e is [x_hi <= 0] or [x_lo >= 1]: together they say
    // e \/ !y, but the solver only finds out through a conflict once e is false and y is decided true - a
    // conflict between a current-level predicate and the far end of a chain set off at a lower level
    let pairs = 1 + next(5);
    for _ in 0..pairs {
        let e = if next(2) == 0 { Pred { var: n - 1 - next(n / 25 + 1), kind: PKind::Le, val: 0 } } else { Pred { var: next(n / 25 + 1), kind: PKind::Ge, val: 1 } };
        let (y, z) = (vars.len(), vars.len() + 1);
        vars.push(VarDecl::Bool);
        vars.push(VarDecl::Bool);
        let e_planted = e.holds(witness[e.var] as i64);
        witness.push((e_planted && next(4) != 0) as i32);
        witness.push(next(2) as i32);
        for z_kind in [PKind::Le, PKind::Ge] {
            cons.push(Posted::plain(Cons::PredClause { preds: vec![e, Pred { var: y, kind: PKind::Le, val: 0 }, Pred { var: z, kind: z_kind, val: (z_kind == PKind::Ge) as i32 }] }));
        }
    }
    let k = 10 + next(50);
    for _ in 0..k {
        match next(3) {
            0 | 1 => {
                // a clause of 2-3 bound predicates, made true under the planted assignment
                let len = 2 + next(2);
                let mut preds: Vec<Pred> = (0..len)
                    .map(|_| {
                        let var = pick_var(&mut next);
                        if next(2) == 0 { Pred { var, kind: PKind::Ge, val: 1 } } else { Pred { var, kind: PKind::Le, val: 0 } }
                    })
                    .collect();
                if !preds.iter().any(|p| p.holds(witness[p.var] as i64)) {
                    let p = &mut preds[0];
                    *p = if witness[p.var] == 1 { Pred { var: p.var, kind: PKind::Ge, val: 1 } } else { Pred { var: p.var, kind: PKind::Le, val: 0 } };
                }
                cons.push(Posted::plain(Cons::PredClause { preds }));
            }
            _ => {
                // x_a + x_b (+ x_c) <= planted sum (+ slack)
                let len = 2 + next(2);
                let mut vs: Vec<usize> = vec![];
                while vs.len() < len {
                    let v = pick_var(&mut next);
                    if !vs.contains(&v) {
                        vs.push(v);
                    }
                }
                let lhs: i32 = vs.iter().map(|v| witness[*v]).sum();
                cons.push(Posted::plain(Cons::LinLe { terms: vs.iter().map(|v| Term::plain(*v)).collect(), rhs: lhs + next(2) as i32 }));
            }
        }
    }
    (Model { vars, cons }, witness)
}

pub static EXCLUDED_NOLEARN_ASSUMPTIONS: std::sync::atomic::AtomicU64 = std::sync::atomic::AtomicU64::new(0);

pub type RawExtras = (u8, (u16, i8, i8), bool, Vec<(u16, u8, u16)>);

pub fn raw_extras() -> BoxedStrategy<RawExtras> {
    (any::<u8>(), (any::<u16>(), -3i8..=3, -3i8..=3), any::<bool>(), proptest::collection::vec((any::<u16>(), any::<u8>(), any::<u16>()), 0..=4))
        .boxed()
}

pub fn build_objective(model: &Model, r: &(u16, i8, i8)) -> Term {
    let var = pick(r.0, model.vars.len());
    let scale = match r.1 {
        -3 => -2,
        -2 | -1 => -1,
        3 => 2,
        _ => 1,
    };
    Term { var, scale, offset: if r.2.abs() >= 2 { r.2 as i32 } else { 0 } }
}

pub fn build_assumptions(model: &Model, raw: &[(u16, u8, u16)]) -> Vec<Pred> {
    raw.iter()
        .map(|(v, k, x)| {
            let var = pick(*v, model.vars.len());
            let d = &model.vars[var];
            // values from lb-1 ..= ub+1
            let span = (d.ub() as i64 - d.lb() as i64 + 3) as usize;
            let val = d.lb() - 1 + pick(*x, span) as i32;
            let kind = match k % 4 {
                0 => PKind::Eq,
                1 => PKind::Ge,
                2 => PKind::Le,
                _ => PKind::Ne,
            };
            Pred { var, kind, val }
        })
        .collect()
}

pub fn solve_case_strategy(p: &GenParams, paths: &'static [u8]) -> BoxedStrategy<SolveCase> {
    let pp = p.clone();
    // one case in eight is a scheduling model: several cumulative tasks (about half of them nearly fixed) and
    // a few side constraints, the shape which the incremental time-table propagators need to go wrong
    let mut pp_cum = p.clone();
    pp_cum.kinds = vec![(K::Cumulative, 10), (K::BinLe, 2), (K::BinNe, 2), (K::LinLe, 1)];
    pp_cum.max_tasks = 6;
    pp_cum.max_dur = 5;
    pp_cum.small_dom_permille = 550;
    pp_cum.max_dom = 7;
    pp_cum.pred_literals = false;
    (raw_model_strategy(p), raw_config_strategy(), raw_extras())
        .prop_map(move |((rv, rc), rcfg, ex)| {
            let model = if ex.0 % 8 == 7 { build_model(&pp_cum, &rv, &rc) } else { build_model(&pp, &rv, &rc) };
            let mut cfg = build_config(&rcfg);
            let path = paths[(ex.0 as usize) % paths.len()];
            if cfg.no_learning && (path == 2 || path == 4) {
                // known finding KF-no-learning-assumptions: excluded by construction
                cfg.no_learning = false;
                EXCLUDED_NOLEARN_ASSUMPTIONS.fetch_add(1, std::sync::atomic::Ordering::Relaxed);
            }
            if ex.0 >= 252 {
                // one case in 64: a long-chain model judged by certificate
                let (model, witness) = build_chain_model(&ex.3, ex.1);
                // (C04 maximises the switch variable of the last clause pair on these models)
                let objective = Term::plain(model.vars.len() - 2);
                return SolveCase { model, cfg, path: 0, objective, maximise: true, assumptions: vec![], witness: Some(witness) };
            }
            let objective = build_objective(&model, &ex.1);
            let assumptions = build_assumptions(&model, &ex.3);
            SolveCase { model, cfg, path, objective, maximise: ex.2, assumptions, witness: None }
        })
        .boxed()
}

pub struct SolveProp {
    pub id: &'static str,
}

pub fn model_classes(m: &Model, classes: &mut Vec<String>) {
    if m.cons.iter().any(|p| {
        let mut v = p.vars_multi();
        let n = v.len();
        v.sort_unstable();
        v.dedup();
        v.len() != n
    }) {
        classes.push("repeated_variable_in_constraint".into());
    }
    if m.vars.iter().any(|v| v.has_holes()) {
        classes.push("has_holes".into());
    }
    if m.vars.iter().any(|v| v.lb() < 0) {
        classes.push("has_negative".into());
    }
    let mut views = false;
    let mut modes = false;
    for p in &m.cons {
        classes.push(format!("kind:{}", p.cons.kind()));
        match p.mode {
            Mode::Post => {}
            Mode::ImpliedBy(_) => {
                modes = true;
                classes.push("mode:implied_by".into())
            }
            Mode::Reify(_) => {
                modes = true;
                classes.push("mode:reify".into())
            }
            Mode::Negated => {
                modes = true;
                classes.push("mode:negated".into())
            }
        }
        views |= cons_has_view(&p.cons);
    }
    if views {
        classes.push("has_views".into());
    }
    if modes {
        classes.push("has_reification".into());
    }
    classes.sort();
    classes.dedup();
}

pub fn cons_has_view(c: &Cons) -> bool {
    let t = |x: &Term| !x.is_plain();
    match c {
        Cons::LinLe { terms, .. } | Cons::LinEq { terms, .. } | Cons::LinNe { terms, .. } => terms.iter().any(t),
        Cons::BinEq { a, b } | Cons::BinNe { a, b } | Cons::BinLe { a, b } | Cons::BinLt { a, b } => t(a) || t(b),
        Cons::Plus { a, b, c } | Cons::Times { a, b, c } => t(a) || t(b) || t(c),
        Cons::Div { n, d, r } => t(n) || t(d) || t(r),
        Cons::Abs { x, y } => t(x) || t(y),
        Cons::Max { xs, m } | Cons::Min { xs, m } => xs.iter().any(t) || t(m),
        Cons::Element { idx, array, rhs } => t(idx) || array.iter().any(t) || t(rhs),
        Cons::AllDiff { xs } => xs.iter().any(t),
        Cons::Cumulative { starts, .. } => starts.iter().any(t),
        _ => false,
    }
}

pub fn config_classes(c: &Config, classes: &mut Vec<String>) {
    if *c == Config::default_cfg() {
        classes.push("cfg:default".into());
    }
    if c.no_learning {
        classes.push("cfg:no_learning".into());
    }
    if !c.minimise {
        classes.push("cfg:no_minimisation".into());
    }
    classes.push(
        match &c.brancher {
            BrSpec::Default => "br:default",
            BrSpec::Indep(_) => "br:indep",
            BrSpec::Dynamic { .. } => "br:dynamic",
            BrSpec::Alternating { .. } => "br:alternating",
            BrSpec::AutoCustom(_) => "br:autonomous_custom",
        }
        .into(),
    );
}

fn obj_value(t: &Term, a: &[i32]) -> i128 {
    sem::tv(t, a)
}

impl Property for SolveProp {
    type Case = SolveCase;
    fn id(&self) -> &'static str {
        self.id
    }
    fn rule(&self) -> String {
        if self.id == "C01" {
            "grammar-generated model (<=6 vars, domains <=6 values incl. holes/negatives/views/reification) x generated solver configuration x hand-out path (satisfy, iterator, assumptions, optimise SAT-UNSAT/UNSAT-SAT + callback); every handed-out solution is evaluated with exact i128 reference semantics. Non-trivial: >=2 constraints over >=2 variables, >=1 solution handed out and >=1 decision made; distinct by hash of (model, path).".into()
        } else {
            "same generator; verdicts (post errors, Unsatisfiable, Satisfiable, optimisation/iteration endings) compared with exhaustive enumeration of the solution set. Non-trivial: the model has 0..=3 solutions and the search met >=1 conflict (or the infeasibility was reported at posting time after >=2 constraints); distinct by hash of (model, path).".into()
        }
    }
    fn assumptions(&self) -> Vec<String> {
        vec![
            "reference semantics in harness/src/sem.rs written from the constraint documentation".into(),
            "models bounded to <= 6 variables / <= 6000 assignments (small-scope)".into(),
            "a solve that exhausts the deterministic poll budget is inconclusive, never a violation".into(),
        ]
    }
    fn panics_are_violations(&self) -> bool {
        // C01 only judges values which are actually handed out; a crash is C02's / C10's business
        self.id != "C01"
    }
    fn strategy(&self, tier: Tier) -> BoxedStrategy<SolveCase> {
        let mut p = GenParams::standard();
        if tier == Tier::Thorough {
            p.max_vars = 8;
            p.max_cons = 8;
            p.space_limit = 60_000;
        }
        solve_case_strategy(&p, &[0, 0, 0, 1, 2, 3, 4])
    }
    fn cases(&self, tier: Tier) -> u64 {
        match tier {
            Tier::Quick => 2_000_000,
            Tier::Thorough => 20_000_000,
        }
    }
    fn floors(&self, _tier: Tier) -> Vec<(&'static str, f64)> {
        if self.id == "C02" {
            vec![("ref:unsat", 0.15), ("ref:few_solutions", 0.12), ("had_conflict", 0.04)]
        } else {
            vec![("handed_out", 0.4), ("has_views", 0.2), ("has_reification", 0.1)]
        }
    }
    fn feature(&self, case: &SolveCase, name: &str) -> bool {
        match name {
            "no_learning_with_assumptions" => case.cfg.no_learning && (case.path == 2 || case.path == 4),
            _ => crate::props::features::model_feature(&case.model, name),
        }
    }

    fn run(&self, case: &SolveCase) -> Verdict {
        let m = &case.model;
        let c01 = self.id == "C01";
        let mut out = Outcome::default();
        model_classes(m, &mut out.classes);
        config_classes(&case.cfg, &mut out.classes);
        out.classes.push(format!("path:{}", case.path));

        if let Some(w) = &case.witness {
            // certificate mode for models which are too large to enumerate
            out.classes.push("large_planted".into());
            if !sem::is_solution(m, w) {
                panic!("harness: the planted assignment does not satisfy the large model");
            }
            let mut b = Built::from_model(m, &case.cfg, None);
            if b.infeasible_at_post() {
                return Err(Failure::new("wrong:post-error-but-satisfiable", format!("posting constraint #{} of the long-chain model failed although the planted assignment satisfies the model", b.post_ok.iter().position(|x| !x).unwrap())));
            }
            let mut br = b.brancher(&case.cfg.brancher);
            let mut t = CountingTermination::budget(BUDGET);
            // Everything the solver derives without a decision, and every nogood it uses as a reason, is implied
            // by the model and therefore holds under the planted assignment. The explanation tap (hook H1) makes
            // both visible: an unsound learned nogood is caught when it is used, long before it turns a verdict.
            pumpkin_solver::verif_hooks::enable(200_000);
            let result = satisfy(&mut b, &mut br, &mut t);
            let (records, _) = pumpkin_solver::verif_hooks::drain();
            pumpkin_solver::verif_hooks::disable();
            let holds = |p: &pumpkin_solver::predicates::Predicate| b.unpred(*p).map(|q| q.holds(w[q.var] as i64));
            let mut checked = 0u64;
            for r in &records {
                let Some(p) = r.propagated.as_ref() else { continue };
                let Some(p_holds) = holds(p) else { continue };
                match r.kind {
                    pumpkin_solver::verif_hooks::Kind::Propagation if r.decision_level == 0 => {
                        checked += 1;
                        if !p_holds {
                            return Err(Failure::new(
                                format!("wrong:root-fact-excludes-planted-solution:{}", r.propagator),
                                format!("{} derived {:?} at the root level but the planted solution of the long-chain model violates it", r.propagator, b.unpred(*p)),
                            ));
                        }
                    }
                    pumpkin_solver::verif_hooks::Kind::AnalysisReason if r.propagator == "NogoodPropagator" => {
                        checked += 1;
                        let reason_holds = r.reason.iter().all(|q| holds(q).unwrap_or(true));
                        if reason_holds && !p_holds && r.reason.iter().all(|q| holds(q).is_some()) {
                            return Err(Failure::new(
                                "wrong:nogood-violated-by-planted-solution",
                                format!("a nogood used as the reason {:?} -> {:?} is violated by the planted solution of the long-chain model (every nogood in the database is implied by the model)", r.reason.iter().map(|q| b.unpred(*q)).collect::<Vec<_>>(), b.unpred(*p)),
                            ));
                        }
                    }
                    _ => {}
                }
            }
            out.sub_evals = checked;
            // the solver is back at the root: whatever it has fixed there (learned unit nogoods included) is implied
            // by the model, so the planted solution lies within the root bounds
            if !matches!(result, SatRes::Unsat) {
                for (v, d) in b.doms.iter().enumerate() {
                    let (lb, ub) = (b.solver.lower_bound(d), b.solver.upper_bound(d));
                    if w[v] < lb || w[v] > ub {
                        return Err(Failure::new(
                            "wrong:root-bounds-exclude-planted-solution",
                            format!("after the solve variable {v} of the long-chain model has root bounds [{lb}, {ub}] but the planted solution has the value {}", w[v]),
                        ));
                    }
                }
            }
            match result {
                SatRes::Sat(a) => {
                    if let Some(why) = sem::first_violation(m, &a) {
                        return Err(Failure::new("invalid:solution-from-satisfy", format!("the solution of the long-chain model is not a solution: {}", why)));
                    }
                }
                SatRes::Unsat => return Err(Failure::new("wrong:unsat-but-sat", "Unsatisfiable but the planted assignment satisfies the long-chain model")),
                SatRes::Unknown => out.inconclusive = true,
            }
            if br.stats.conflicts > 0 {
                out.classes.push("large_planted:had_conflict".into());
                out.nontrivial = Some(hash_of(&(m, &case.cfg)));
            }
            return Ok(out);
        }
        let limit = 2_000_000;
        let sols = sem::solutions(m, limit).expect("harness: reference enumeration exceeded its limit");
        out.classes.push(match sols.len() {
            0 => "ref:unsat".to_string(),
            1..=3 => "ref:few_solutions".to_string(),
            _ => "ref:many_solutions".to_string(),
        });
        let sat = !sols.is_empty();

        let mut b = Built::from_model(m, &case.cfg, None);
        let mut handed: Vec<(String, Vec<i32>)> = vec![];
        let mut verdict_fail: Option<Failure> = None;
        let mut conflicts = 0;
        let mut decisions = 0;
        let mut inconclusive = false;

        if b.infeasible_at_post() {
            out.classes.push("post_error".into());
            let i = b.post_ok.iter().position(|x| !x).unwrap();
            let prefix = Model { vars: m.vars.clone(), cons: m.cons[..=i].to_vec() };
            let psols = sem::solutions(&prefix, limit).expect("harness: reference enumeration exceeded its limit");
            if !psols.is_empty() {
                verdict_fail = Some(Failure::new(
                    "wrong:post-error-but-satisfiable",
                    format!("posting constraint #{} returned an error but the constraints posted so far have {} solutions, e.g. {:?}", i, psols.len(), psols[0]),
                ));
            }
        }
        if verdict_fail.is_none() && !b.infeasible_at_post() {
            let mut br = b.brancher(&case.cfg.brancher);
            let mut t = CountingTermination::budget(BUDGET);
            match case.path {
                0 => match satisfy(&mut b, &mut br, &mut t) {
                    SatRes::Sat(a) => {
                        if !sat {
                            verdict_fail = Some(Failure::new("wrong:sat-but-unsat", format!("Satisfiable({:?}) but the model has no solution", a)));
                        }
                        handed.push(("satisfy".into(), a));
                    }
                    SatRes::Unsat => {
                        if sat {
                            verdict_fail = Some(Failure::new("wrong:unsat-but-sat", format!("Unsatisfiable but the model has {} solutions, e.g. {:?}", sols.len(), sols[0])));
                        }
                    }
                    SatRes::Unknown => {
                        if t.exhausted {
                            inconclusive = true;
                        } else {
                            verdict_fail = Some(Failure::new("wrong:unknown-without-stop", "Unknown although the termination condition never fired"));
                        }
                    }
                },
                1 => {
                    let (got, end) = iterate(&mut b, &mut br, &mut t, 60);
                    for a in &got {
                        handed.push(("iterator".into(), a.clone()));
                    }
                    match end {
                        IterEnd::Unsat if sat => {
                            verdict_fail = Some(Failure::new("wrong:iter-unsat-but-sat", format!("iterator reported Unsatisfiable but the model has {} solutions", sols.len())));
                        }
                        IterEnd::Finished if !sat => {
                            verdict_fail = Some(Failure::new("wrong:iter-finished-but-unsat", "iterator produced solutions for a model without solutions"));
                        }
                        IterEnd::Unknown => {
                            if t.exhausted {
                                inconclusive = true;
                            } else {
                                verdict_fail = Some(Failure::new("wrong:unknown-without-stop", "iterator Unknown although the termination condition never fired"));
                            }
                        }
                        _ => {}
                    }
                }
                2 => {
                    let r = satisfy_under_assumptions(&mut b, &mut br, &mut t, &case.assumptions, false);
                    let sat_a = sols.iter().any(|s| case.assumptions.iter().all(|p| p.holds(s[p.var] as i64)));
                    match r {
                        AssRes::Sat(a) => {
                            if !sat_a {
                                verdict_fail = Some(Failure::new("wrong:sat-under-assumptions-but-unsat", format!("Satisfiable({:?}) but model+assumptions has no solution", a)));
                            }
                            // C01: the assumptions are part of what must hold
                            if let Some(p) = case.assumptions.iter().find(|p| !p.holds(a[p.var] as i64)) {
                                if c01 {
                                    return Err(Failure::new("invalid:assumption-not-satisfied", format!("solution {:?} violates assumption {:?}", a, p)));
                                }
                            }
                            handed.push(("assumptions".into(), a));
                        }
                        AssRes::UnsatUnderAssumptions(_) => {
                            if sat_a {
                                verdict_fail = Some(Failure::new("wrong:unsat-under-assumptions-but-sat", "UnsatisfiableUnderAssumptions but model+assumptions has a solution"));
                            }
                        }
                        AssRes::Unsat => {
                            if sat {
                                verdict_fail = Some(Failure::new("wrong:unsat-but-sat", format!("Unsatisfiable (assumption solve) but the model has {} solutions", sols.len())));
                            }
                        }
                        AssRes::Unknown => {
                            if t.exhausted {
                                inconclusive = true;
                            } else {
                                verdict_fail = Some(Failure::new("wrong:unknown-without-stop", "Unknown although the termination condition never fired"));
                            }
                        }
                    }
                }
                _ => {
                    let lsu = case.path == 3;
                    let (r, cbs) = optimise(&mut b, &mut br, &mut t, lsu, case.maximise, &case.objective);
                    for a in cbs {
                        handed.push(("callback".into(), a));
                    }
                    match r {
                        OptRes::Optimal(a) => {
                            if !sat {
                                verdict_fail = Some(Failure::new("wrong:optimal-but-unsat", format!("Optimal({:?}) but the model has no solution", a)));
                            } else {
                                let best = sols.iter().map(|s| obj_value(&case.objective, s)).fold(None, |acc: Option<i128>, v| {
                                    Some(match acc {
                                        None => v,
                                        Some(x) => {
                                            if case.maximise {
                                                x.max(v)
                                            } else {
                                                x.min(v)
                                            }
                                        }
                                    })
                                });
                                if a.len() == m.vars.len() && Some(obj_value(&case.objective, &a)) != best {
                                    out.notes.push(format!("NOTE property=C04 optimum {:?} != reference {:?}", obj_value(&case.objective, &a), best));
                                }
                            }
                            handed.push(("optimal".into(), a));
                        }
                        OptRes::Satisfiable(a) => {
                            if t.exhausted {
                                inconclusive = true;
                            } else {
                                verdict_fail = Some(Failure::new("wrong:unknown-without-stop", "optimise returned Satisfiable although the termination condition never fired"));
                            }
                            handed.push(("opt_satisfiable".into(), a));
                        }
                        OptRes::Unsat => {
                            if sat {
                                verdict_fail = Some(Failure::new("wrong:unsat-but-sat", format!("optimise Unsatisfiable but the model has {} solutions", sols.len())));
                            }
                        }
                        OptRes::Unknown => {
                            if t.exhausted {
                                inconclusive = true;
                            } else {
                                verdict_fail = Some(Failure::new("wrong:unknown-without-stop", "optimise Unknown although the termination condition never fired"));
                            }
                        }
                    }
                }
            }
            conflicts = br.stats.conflicts;
            decisions = br.stats.decisions;
        }
        out.inconclusive = inconclusive;
        if conflicts > 0 {
            out.classes.push("had_conflict".into());
        }
        if decisions > 0 {
            out.classes.push("had_decision".into());
        }
        if !handed.is_empty() {
            out.classes.push("handed_out".into());
        }
        let key = hash_of(&(m, case.path, &case.assumptions, case.maximise, case.objective));
        if c01 {
            for (how, a) in &handed {
                if let Some(why) = sem::first_violation(m, a) {
                    return Err(Failure::new(
                        format!("invalid:solution-from-{}", how),
                        format!("solution {:?} handed out by {} is not a solution: {}", a, how, why),
                    ));
                }
            }
            if m.cons.len() >= 2 && m.vars.len() >= 2 && !handed.is_empty() && decisions > 0 {
                out.nontrivial = Some(key);
            }
            out.observed = Some(json!({"handed_out": handed.len(), "decisions": decisions, "conflicts": conflicts}));
            Ok(out)
        } else {
            if let Some(f) = verdict_fail {
                return Err(f);
            }
            if sols.len() <= 3 && (conflicts > 0 || (b.infeasible_at_post() && m.cons.len() >= 2)) {
                out.nontrivial = Some(key);
            }
            out.observed = Some(json!({"reference_solutions": sols.len(), "decisions": decisions, "conflicts": conflicts, "post_error": b.infeasible_at_post()}));
            Ok(out)
        }
    }
}
