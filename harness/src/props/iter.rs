//! C03 (iteration yields every solution exactly once), C08 (cumulative under all option
//! combinations), C09 (reification semantics) and C07 (configuration independence): all compare the
//! iterated solution set with the exhaustive reference set.
use proptest::prelude::*;
use serde::{Deserialize, Serialize};
use serde_json::json;

use crate::adapter::*;
use crate::gen::*;
use crate::ir::*;
use crate::ops::*;
use crate::props::solve::{config_classes, model_classes};
use crate::runner::*;
use crate::sem;

pub struct SetOutcome {
    pub got: Vec<Vec<i32>>,
    pub end: IterEnd,
    pub conflicts: u64,
    pub decisions: u64,
    pub post_error: Option<usize>,
    pub exhausted: bool,
}

/// Build, iterate to the end and return what was seen.
pub fn iterate_all(m: &Model, cfg: &Config, max: usize) -> SetOutcome {
    let mut b = Built::from_model(m, cfg, None);
    if b.infeasible_at_post() {
        return SetOutcome {
            got: vec![],
            end: IterEnd::Unsat,
            conflicts: 0,
            decisions: 0,
            post_error: b.post_ok.iter().position(|x| !x),
            exhausted: false,
        };
    }
    let mut br = b.brancher(&cfg.brancher);
    let mut t = CountingTermination::budget(BUDGET);
    let (got, end) = iterate(&mut b, &mut br, &mut t, max);
    SetOutcome { got, end, conflicts: br.stats.conflicts, decisions: br.stats.decisions, post_error: None, exhausted: t.exhausted }
}

/// Compare an iterated set with the reference set; `what` names the configuration.
pub fn compare_sets(m: &Model, sols: &[Vec<i32>], o: &SetOutcome, what: &str) -> Result<(), Failure> {
    if let Some(i) = o.post_error {
        if !sols.is_empty() {
            let prefix = Model { vars: m.vars.clone(), cons: m.cons[..=i].to_vec() };
            let ps = sem::solutions(&prefix, 5_000_000).expect("harness: enumeration limit");
            if !ps.is_empty() {
                return Err(Failure::new(
                    "wrong:post-error-but-satisfiable",
                    format!("[{what}] posting constraint #{i} failed but the constraints so far have {} solutions, e.g. {:?}", ps.len(), ps[0]),
                ));
            }
        }
        return Ok(());
    }
    if o.exhausted {
        return Ok(());
    }
    let mut seen = std::collections::HashSet::new();
    for a in &o.got {
        if let Some(why) = sem::first_violation(m, a) {
            return Err(Failure::new("wrong:iterated-non-solution", format!("[{what}] iterated assignment {:?} is not a solution: {}", a, why)));
        }
        if !seen.insert(a.clone()) {
            return Err(Failure::new("wrong:iterated-duplicate", format!("[{what}] solution {:?} was produced twice", a)));
        }
    }
    match o.end {
        IterEnd::Limit => return Ok(()),
        IterEnd::Unknown => {
            return Err(Failure::new("wrong:unknown-without-stop", format!("[{what}] iterator returned Unknown although the termination never fired")))
        }
        IterEnd::Unsat => {
            if !o.got.is_empty() {
                return Err(Failure::new("wrong:iter-unsat-after-solutions", format!("[{what}] Unsatisfiable reported after {} solutions", o.got.len())));
            }
        }
        IterEnd::Finished => {
            if o.got.is_empty() {
                return Err(Failure::new("wrong:iter-finished-without-solutions", format!("[{what}] Finished reported without any solution")));
            }
        }
    }
    if let Some(missing) = sols.iter().find(|s| !seen.contains(*s)) {
        return Err(Failure::new(
            "wrong:iterated-missing-solution",
            format!("[{what}] solution {:?} was never produced ({} of {} found, end {:?})", missing, o.got.len(), sols.len(), o.end),
        ));
    }
    Ok(())
}

// ------------------------------------------------------------------------------------------
// C03

#[derive(Clone, Debug, Serialize, Deserialize)]
pub struct IterCase {
    pub model: Model,
    pub cfg: Config,
    /// stop after this many solutions, post `extra`, and continue with a new iterator
    pub stop_after: Option<usize>,
    pub extra: Option<Posted>,
}

pub struct IterProp;

impl Property for IterProp {
    type Case = IterCase;
    fn id(&self) -> &'static str {
        "C03"
    }
    fn rule(&self) -> String {
        "generated model (<=6 vars, <=400 assignments in the thorough tier 4000) x generated configuration; iterate until Finished/Unsatisfiable and compare the multiset of assignments with the exhaustive reference set (no missing, no duplicate, no non-solution, correct terminal value); half of the cases stop after k solutions, post one more generated constraint and continue with a new iterator, which must yield exactly the solutions of the extended model not seen before. Non-trivial: >=2 solutions and >=1 conflict during the iteration; distinct by hash of (model, stop point, extra constraint).".into()
    }
    fn assumptions(&self) -> Vec<String> {
        vec!["blocking clauses of iterated solutions stay in the solver (documented)".into(), "branchers cover all variables".into()]
    }
    fn strategy(&self, tier: Tier) -> BoxedStrategy<IterCase> {
        let mut p = GenParams::standard();
        p.space_limit = if tier == Tier::Quick { 400 } else { 4000 };
        p.max_cons = 5;
        let pp = p.clone();
        (raw_model_strategy(&p), raw_config_strategy(), any::<u8>(), raw_model_strategy(&p))
            .prop_map(move |((rv, rc), rcfg, k, (_, rc2))| {
                let model = build_model(&pp, &rv, &rc);
                let cfg = build_config(&rcfg);
                let (stop_after, extra) = if k % 2 == 0 {
                    (None, None)
                } else {
                    let w = build_witness(&model.vars, &rv);
                    let extra = rc2.first().and_then(|c| build_cons(&pp, &model.vars, &w, c, model.cons.len()));
                    (Some((k / 2) as usize % 6), extra)
                };
                IterCase { model, cfg, stop_after, extra }
            })
            .boxed()
    }
    fn cases(&self, tier: Tier) -> u64 {
        match tier {
            Tier::Quick => 300_000,
            Tier::Thorough => 3_000_000,
        }
    }
    fn floors(&self, _tier: Tier) -> Vec<(&'static str, f64)> {
        vec![("sols:2-10", 0.1), ("sols:>10", 0.1), ("had_conflict", 0.05), ("continued", 0.2)]
    }
    fn feature(&self, case: &IterCase, name: &str) -> bool {
        crate::props::features::model_feature(&case.model, name)
    }
    fn run(&self, case: &IterCase) -> Verdict {
        let m = &case.model;
        let mut out = Outcome::default();
        model_classes(m, &mut out.classes);
        config_classes(&case.cfg, &mut out.classes);
        let sols = sem::solutions(m, 5_000_000).expect("harness: enumeration limit");
        out.classes.push(
            match sols.len() {
                0 => "sols:0",
                1 => "sols:1",
                2..=10 => "sols:2-10",
                _ => "sols:>10",
            }
            .into(),
        );
        let key = hash_of(&(m, &case.stop_after, &case.extra));
        match (case.stop_after, &case.extra) {
            (Some(k), Some(extra)) => {
                out.classes.push("continued".into());
                let mut b = Built::from_model(m, &case.cfg, None);
                if b.infeasible_at_post() {
                    let o = SetOutcome { got: vec![], end: IterEnd::Unsat, conflicts: 0, decisions: 0, post_error: b.post_ok.iter().position(|x| !x), exhausted: false };
                    compare_sets(m, &sols, &o, "first part")?;
                    return Ok(out);
                }
                let mut br = b.brancher(&case.cfg.brancher);
                let mut t = CountingTermination::budget(BUDGET);
                let (first, end1) = iterate(&mut b, &mut br, &mut t, k);
                let o1 = SetOutcome { got: first.clone(), end: end1, conflicts: br.stats.conflicts, decisions: br.stats.decisions, post_error: None, exhausted: t.exhausted };
                compare_sets(m, &sols, &o1, "first part")?;
                if t.exhausted {
                    out.inconclusive = true;
                    return Ok(out);
                }
                // extended model: note that only the blocking clauses of all but the last solution of the
                // first part have been added to the solver (the clause of a solution is added when the
                // next one is requested); the last one may therefore be produced again
                let mut m2 = m.clone();
                m2.cons.push(extra.clone());
                let sols2 = sem::solutions(&m2, 5_000_000).expect("harness: enumeration limit");
                let ok = b.post(extra, m.cons.len());
                let blocked: Vec<&Vec<i32>> = if end1 == IterEnd::Limit && !first.is_empty() { first[..first.len() - 1].iter().collect() } else { first.iter().collect() };
                let expect: Vec<Vec<i32>> = sols2.iter().filter(|s| !blocked.contains(s)).cloned().collect();
                if !ok {
                    // an error means that the extended model with the blocking clauses has no solution
                    if !expect.is_empty() && end1 == IterEnd::Limit {
                        return Err(Failure::new("wrong:post-error-but-satisfiable", format!("posting the extra constraint failed but {} unblocked solutions remain, e.g. {:?}", expect.len(), expect[0])));
                    }
                    return Ok(out);
                }
                if end1 != IterEnd::Limit {
                    // the first iteration already ended; the solver is then infeasible by its last blocking clause
                    return Ok(out);
                }
                let mut br2 = b.brancher(&case.cfg.brancher);
                let mut t2 = CountingTermination::budget(BUDGET);
                let (second, end2) = iterate(&mut b, &mut br2, &mut t2, 100_000);
                let o2 = SetOutcome { got: second, end: end2, conflicts: br2.stats.conflicts, decisions: br2.stats.decisions, post_error: None, exhausted: t2.exhausted };
                // compare against the extended model restricted to unblocked solutions
                let mut m3 = m2.clone();
                for s in &blocked {
                    m3.cons.push(Posted::plain(Cons::PredClause { preds: s.iter().enumerate().map(|(v, x)| Pred { var: v, kind: PKind::Ne, val: *x }).collect() }));
                }
                compare_sets(&m3, &expect, &o2, "continuation")?;
                if expect.len() >= 2 && (o1.conflicts + o2.conflicts) > 0 {
                    out.nontrivial = Some(key);
                }
                if o1.conflicts + o2.conflicts > 0 {
                    out.classes.push("had_conflict".into());
                }
                out.inconclusive = t2.exhausted;
                out.observed = Some(json!({"first": first.len(), "continued": o2.got.len(), "expected_continued": expect.len()}));
            }
            _ => {
                let o = iterate_all(m, &case.cfg, 100_000);
                compare_sets(m, &sols, &o, "full iteration")?;
                if o.conflicts > 0 {
                    out.classes.push("had_conflict".into());
                }
                if sols.len() >= 2 && o.conflicts > 0 {
                    out.nontrivial = Some(key);
                }
                out.inconclusive = o.exhausted;
                out.observed = Some(json!({"solutions": o.got.len(), "reference": sols.len(), "end": format!("{:?}", o.end), "conflicts": o.conflicts}));
            }
        }
        Ok(out)
    }
}

// ------------------------------------------------------------------------------------------
// C07, C08, C09: one model, several configurations / option sets

#[derive(Clone, Debug, Serialize, Deserialize)]
pub struct MultiCase {
    pub model: Model,
    pub cfgs: Vec<Config>,
    /// C08: cumulative option indexes to run the model under (the model's own options are replaced)
    pub cum_opts: Vec<usize>,
    /// C07: also compare the optimum of this objective
    pub objective: Option<(Term, bool)>,
}

pub struct MultiProp {
    pub id: &'static str,
}

pub fn with_cum_opts(m: &Model, idx: usize) -> Model {
    let mut m = m.clone();
    for p in m.cons.iter_mut() {
        let reified = !matches!(p.mode, Mode::Post);
        if let Cons::Cumulative { opts, .. } = &mut p.cons {
            *opts = CumOpts::from_index(idx);
            // known finding KF-reified-incremental-cumulative: excluded by construction
            if reified && matches!(opts.method, 1 | 2 | 4 | 5) {
                opts.method = if opts.method <= 2 { 0 } else { 3 };
                EXCLUDED_REIF_INCR_CUM.fetch_add(1, std::sync::atomic::Ordering::Relaxed);
            }
        }
    }
    m
}

impl MultiProp {
    fn params(&self, tier: Tier) -> GenParams {
        let mut p = GenParams::standard();
        match self.id {
            "C08" => {
                p.kinds = vec![(K::Cumulative, 10), (K::BinLe, 2), (K::BinLt, 1), (K::BinNe, 2), (K::LinLe, 1), (K::PredClause, 2)];
                p.min_cons = 1;
                p.max_cons = 3;
                p.mode_permille = 60;
                p.max_dom = 7;
                p.max_vars = 8;
                p.max_tasks = 6;
                p.max_dur = 5;
                p.small_dom_permille = 550;
                p.lb_span = 3;
                p.space_limit = if tier == Tier::Quick { 1500 } else { 8000 };
            }
            "C09" => {
                p.mode_permille = 300;
                p.min_cons = 1;
                p.max_cons = 3;
                p.space_limit = if tier == Tier::Quick { 1500 } else { 10_000 };
                p.kinds = ALL_KINDS.iter().filter(|k| !matches!(k, K::PredClause)).map(|k| (*k, 3)).collect();
            }
            _ => {
                p.space_limit = if tier == Tier::Quick { 1000 } else { 8000 };
                p.min_cons = 1;
            }
        }
        p
    }
}

impl Property for MultiProp {
    type Case = MultiCase;
    fn id(&self) -> &'static str {
        self.id
    }
    fn rule(&self) -> String {
        match self.id {
            "C08" => "at least one cumulative constraint: 1-6 cumulative tasks (interval/sparse/negative starts, about half of them with at most two start times, views, durations 0-5, usages 0-3, capacity 0-4) + 0-2 side constraints, iterated under several of the 144 CumulativeOptions combinations (quick: 8 per case, rotating so that every combination is used; thorough: all 144, fewer - at least 8 - for models with more than 700 solutions so that a case stays below about 100 000 iterated solutions) and compared with the definitional solution set. Non-trivial: >=2 tasks with positive duration and usage, reference set neither empty nor the full product, >=1 conflict; distinct by model hash.".into(),
            "C09" => "1-3 constraints of every kind, 30% each posted half-reified / reified / negated with free or pre-fixed literals, iterated under 2 configurations and compared with the reference set defined by implication / equivalence / complement semantics. Non-trivial: a reified constraint whose literal takes both values in the reference set and which is neither valid nor unsatisfiable over the domains; distinct by model hash.".into(),
            _ => "one generated model x K configurations (always: default, NoLearning, restart after every conflict, delete all learned nogoods with both sortings, no minimisation, restart after every conflict under a generated composite brancher; plus generated ones): each configuration's iterated solution set and optimum must equal the exhaustive reference. Non-trivial: >=2 configurations had >=3 conflicts; distinct by model hash.".into(),
        }
    }
    fn assumptions(&self) -> Vec<String> {
        vec!["reference semantics of harness/src/sem.rs".into()]
    }
    fn strategy(&self, tier: Tier) -> BoxedStrategy<MultiCase> {
        let p = self.params(tier);
        let pp = p.clone();
        let id = self.id;
        let n_gen = if tier == Tier::Quick { 3 } else { 6 };
        (
            raw_model_strategy(&p),
            proptest::collection::vec(raw_config_strategy(), n_gen..=n_gen),
            any::<u16>(),
            (any::<u16>(), -3i8..=3, -3i8..=3),
            any::<bool>(),
        )
            .prop_map(move |((rv, rc), rcfgs, rot, obj, maximise)| {
                let mut model = build_model(&pp, &rv, &rc);
                if id == "C08" && !model.cons.iter().any(|p| matches!(p.cons, Cons::Cumulative { .. })) {
                    // every C08 model has a cumulative constraint: the same entropy, cumulative constraints only
                    let mut only_cum = pp.clone();
                    only_cum.kinds = vec![(K::Cumulative, 1)];
                    model = build_model(&only_cum, &rv, &rc);
                }
                let mut cfgs: Vec<Config> = rcfgs.iter().map(build_config).collect();
                let mut cum_opts = vec![];
                let mut objective = None;
                match id {
                    "C08" => {
                        cfgs.truncate(1);
                        let n = if tier == Tier::Quick { 8 } else { 144 };
                        // rotating window so that all 144 combinations are visited evenly
                        cum_opts = (0..n).map(|i| (rot as usize * 8 + i * if n == 144 { 1 } else { 19 }) % 144).collect();
                    }
                    "C09" => {
                        cfgs.truncate(2);
                    }
                    _ => {
                        let mut all = special_configs();
                        // brancher stress: restart after every conflict under a composite brancher (all four
                        // alternating strategies, dynamically assembled, custom) over a generated selector
                        let mut stress = all[2].clone();
                        let sel = Sel { vs: (rot >> 4) as u8 % NUM_VS, vl: (rot >> 8) as u8 % NUM_VL, tie_random: rot & 1 == 1, dynamic: rot & 2 == 2 };
                        stress.brancher = match (rot >> 2) % 4 {
                            0 | 1 => BrSpec::Alternating { strategy: (rot >> 12) as u8, other: sel },
                            2 => BrSpec::Dynamic { parts: vec![sel.clone(), Sel { vs: 2, vl: 4, tie_random: false, dynamic: false }], interleave: rot & 1 == 0, build: (rot >> 12) as u8 % 4 },
                            _ => BrSpec::AutoCustom(sel),
                        };
                        stress.seed = (rot >> 13) as u64;
                        all.push(stress);
                        all.extend(cfgs);
                        cfgs = all;
                        objective = Some((crate::props::solve::build_objective(&model, &obj), maximise));
                    }
                }
                MultiCase { model, cfgs, cum_opts, objective }
            })
            .boxed()
    }
    fn cases(&self, tier: Tier) -> u64 {
        match (self.id, tier) {
            ("C08", Tier::Quick) => 12_000,
            ("C08", Tier::Thorough) => 40_000,
            ("C09", Tier::Quick) => 80_000,
            ("C09", Tier::Thorough) => 1_500_000,
            (_, Tier::Quick) => 60_000,
            (_, Tier::Thorough) => 400_000,
        }
    }
    fn floors(&self, _tier: Tier) -> Vec<(&'static str, f64)> {
        match self.id {
            "C08" => vec![("cum:two_real_tasks", 0.12), ("ref:proper_subset", 0.1)],
            "C09" => vec![("reif:both_values", 0.1)],
            _ => vec![("had_conflict", 0.05)],
        }
    }
    fn extra_coverage(&self, tier: Tier) -> Vec<(String, serde_json::Value)> {
        if self.id == "C08" && tier == Tier::Thorough {
            vec![("options_dimension_exhaustive".into(), json!(true))]
        } else {
            vec![]
        }
    }
    fn feature(&self, case: &MultiCase, name: &str) -> bool {
        crate::props::features::model_feature(&case.model, name)
    }
    fn run(&self, case: &MultiCase) -> Verdict {
        let m = &case.model;
        let mut out = Outcome::default();
        model_classes(m, &mut out.classes);
        let sols = sem::solutions(m, 5_000_000).expect("harness: enumeration limit");
        let mut runs = 0u64;
        let mut with_conflicts = 0;
        let mut total_conflicts = 0;
        let mut any_exhausted = false;
        let variants: Vec<(String, Model, &Config)> = if self.id == "C08" {
            // the option sets only matter when there is a cumulative constraint; and the work of one case is
            // bounded (about 100 000 iterated solutions) so that a model with thousands of solutions under
            // all 144 option sets does not run into the watchdog: the rotation still visits every option set
            let has_cumulative = m.cons.iter().any(|p| matches!(p.cons, Cons::Cumulative { .. }));
            let keep = if has_cumulative { (100_000 / sols.len().max(1)).max(8) } else { 1 };
            if !has_cumulative {
                out.classes.push("no_cumulative".into());
            } else if keep < case.cum_opts.len() {
                out.classes.push("options_truncated".into());
            }
            case.cum_opts.iter().take(keep).map(|i| (format!("options #{} {:?}", i, CumOpts::from_index(*i)), with_cum_opts(m, *i), &case.cfgs[0])).collect()
        } else {
            case.cfgs.iter().enumerate().map(|(i, c)| (format!("configuration #{}", i), m.clone(), c)).collect()
        };
        for (what, mv, cfg) in &variants {
            let o = iterate_all(mv, cfg, 100_000);
            compare_sets(mv, &sols, &o, what)?;
            runs += 1;
            if o.conflicts >= 3 {
                with_conflicts += 1;
            }
            total_conflicts += o.conflicts;
            any_exhausted |= o.exhausted;
            if self.id == "C08" {
                out.classes.push(format!("opt:{}", CumOpts::from_index(case.cum_opts[runs as usize - 1]).index()));
            }
        }
        if let Some((obj, maximise)) = &case.objective {
            if !sols.is_empty() {
                let best = sols.iter().map(|s| sem::tv(obj, s)).fold(None, |acc: Option<i128>, v| Some(acc.map_or(v, |x| if *maximise { x.max(v) } else { x.min(v) }))).unwrap();
                for (i, cfg) in case.cfgs.iter().enumerate() {
                    if cfg.no_learning {
                        // known finding KF-no-learning-assumptions (UNSAT-SAT uses assumptions); SAT-UNSAT only
                    }
                    for lsu in [true, false] {
                        if !lsu && cfg.no_learning {
                            continue;
                        }
                        let mut b = Built::from_model(m, cfg, None);
                        if b.infeasible_at_post() {
                            continue;
                        }
                        let mut br = b.brancher(&cfg.brancher);
                        let mut t = CountingTermination::budget(BUDGET);
                        let (r, _) = optimise(&mut b, &mut br, &mut t, lsu, *maximise, obj);
                        runs += 1;
                        match r {
                            OptRes::Optimal(a) => {
                                if let Some(why) = sem::first_violation(m, &a) {
                                    return Err(Failure::new("wrong:optimal-not-a-solution", format!("[configuration #{i}, lsu={lsu}] {:?}: {}", a, why)));
                                }
                                if sem::tv(obj, &a) != best {
                                    return Err(Failure::new("wrong:optimum-differs", format!("[configuration #{i}, lsu={lsu}] objective {} but the optimum is {}", sem::tv(obj, &a), best)));
                                }
                            }
                            OptRes::Unsat => return Err(Failure::new("wrong:unsat-but-sat", format!("[configuration #{i}, lsu={lsu}] optimise reported Unsatisfiable"))),
                            _ => {
                                if t.exhausted {
                                    any_exhausted = true;
                                } else {
                                    return Err(Failure::new("wrong:unknown-without-stop", format!("[configuration #{i}, lsu={lsu}] optimise did not conclude")));
                                }
                            }
                        }
                    }
                }
            }
        }
        out.sub_evals = runs.saturating_sub(1);
        out.inconclusive = any_exhausted;
        if total_conflicts > 0 {
            out.classes.push("had_conflict".into());
        }
        let key = m.struct_hash();
        match self.id {
            "C08" => {
                let mut real_pairs = false;
                for p in &m.cons {
                    if let Cons::Cumulative { durs, uses, .. } = &p.cons {
                        if durs.iter().zip(uses).filter(|(d, u)| **d > 0 && **u > 0).count() >= 2 {
                            real_pairs = true;
                        }
                    }
                }
                if real_pairs {
                    out.classes.push("cum:two_real_tasks".into());
                }
                let proper = !sols.is_empty() && (sols.len() as u128) < m.space();
                if proper {
                    out.classes.push("ref:proper_subset".into());
                }
                if real_pairs && proper && total_conflicts > 0 {
                    out.nontrivial = Some(key);
                }
            }
            "C09" => {
                // a reified constraint whose literal takes both values and which is contingent
                let mut good = false;
                for p in &m.cons {
                    if let Mode::ImpliedBy(l) | Mode::Reify(l) = p.mode {
                        let both = sols.iter().any(|s| sem::lv(&l, s)) && sols.iter().any(|s| !sem::lv(&l, s));
                        let contingent = sols.iter().any(|s| sem::holds(&p.cons, s)) && sols.iter().any(|s| !sem::holds(&p.cons, s));
                        if both && contingent {
                            good = true;
                            out.classes.push(format!("reif_kind:{}", p.cons.kind()));
                        }
                    }
                    if matches!(p.mode, Mode::Negated) && !sols.is_empty() {
                        out.classes.push(format!("neg_kind:{}", p.cons.kind()));
                    }
                }
                if good {
                    out.classes.push("reif:both_values".into());
                    out.nontrivial = Some(key);
                }
            }
            _ => {
                if with_conflicts >= 2 {
                    out.nontrivial = Some(key);
                }
            }
        }
        out.observed = Some(json!({"reference": sols.len(), "runs": runs, "conflicts_total": total_conflicts}));
        Ok(out)
    }
}
