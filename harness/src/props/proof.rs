//! C06: emitted DRCP proofs are valid certificates. Independent checker written for the harness:
//! own tolerant parsers for `.drcp` / `.lits`, brute-force validation of tagged inferences,
//! explicit-domain reverse propagation for nogood steps, semantic checks against the exhaustive
//! solution set, and the conclusion.
use std::collections::{BTreeMap, HashMap};

use proptest::prelude::*;
use serde::{Deserialize, Serialize};
use serde_json::json;

use crate::adapter::*;
use crate::cli::*;
use crate::gen::*;
use crate::ir::*;
use crate::ops::*;
use crate::props::solve::{build_objective, config_classes, model_classes};
use crate::runner::*;
use crate::sem;

#[derive(Clone, Debug, Serialize, Deserialize, Hash)]
pub struct ProofCase {
    pub model: Model,
    pub cfg: Config,
    /// 0 satisfy, 1 optimise SAT-UNSAT, 2 optimise UNSAT-SAT
    pub path: u8,
    /// 0 scaffold, 1 full, 2 full with hints
    pub proof_type: u8,
    pub objective: Term,
    pub maximise: bool,
}

// ------------------------------------------------------------------------------------------
// parsing

#[derive(Debug, Clone, PartialEq)]
pub enum Step {
    Inference { id: u64, premises: Vec<i64>, propagated: Option<i64>, tag: Option<u32>, label: Option<String> },
    Nogood { id: u64, literals: Vec<i64>, hints: Option<Vec<u64>> },
    Delete { id: u64 },
    Unsat,
    Optimal(i64),
}

pub fn parse_drcp(text: &str) -> Result<Vec<Step>, String> {
    let mut out = vec![];
    for (ln, line) in text.lines().enumerate() {
        let line = line.trim();
        if line.is_empty() {
            continue;
        }
        let toks: Vec<&str> = line.split_whitespace().collect();
        let err = |m: &str| format!("line {}: {} in {:?}", ln + 1, m, line);
        match toks[0] {
            "i" => {
                let id: u64 = toks.get(1).and_then(|t| t.parse().ok()).ok_or_else(|| err("missing step id"))?;
                let mut premises = vec![];
                let mut propagated = None;
                let mut tag = None;
                let mut label = None;
                let mut i = 2;
                let mut after_zero = false;
                while i < toks.len() {
                    let t = toks[i];
                    if let Some(x) = t.strip_prefix("c:") {
                        tag = Some(x.parse::<u32>().map_err(|_| err("bad tag"))?);
                    } else if let Some(x) = t.strip_prefix("l:") {
                        label = Some(x.to_string());
                    } else if t == "0" {
                        after_zero = true;
                    } else {
                        let v: i64 = t.parse().map_err(|_| err("bad literal"))?;
                        if after_zero {
                            if propagated.is_some() {
                                return Err(err("two propagated literals"));
                            }
                            propagated = Some(v);
                        } else {
                            premises.push(v);
                        }
                    }
                    i += 1;
                }
                out.push(Step::Inference { id, premises, propagated, tag, label });
            }
            "n" => {
                let id: u64 = toks.get(1).and_then(|t| t.parse().ok()).ok_or_else(|| err("missing step id"))?;
                let mut literals = vec![];
                let mut hints = None;
                for t in &toks[2..] {
                    if *t == "0" && hints.is_none() {
                        hints = Some(vec![]);
                    } else if let Some(h) = hints.as_mut() {
                        h.push(t.parse::<u64>().map_err(|_| err("bad hint"))?);
                    } else {
                        literals.push(t.parse::<i64>().map_err(|_| err("bad literal"))?);
                    }
                }
                out.push(Step::Nogood { id, literals, hints });
            }
            "d" => out.push(Step::Delete { id: toks.get(1).and_then(|t| t.parse().ok()).ok_or_else(|| err("missing id"))? }),
            "c" => {
                if toks.get(1) == Some(&"UNSAT") {
                    out.push(Step::Unsat)
                } else {
                    out.push(Step::Optimal(toks.get(1).and_then(|t| t.parse().ok()).ok_or_else(|| err("bad conclusion"))?))
                }
            }
            _ => return Err(err("unknown step kind")),
        }
    }
    Ok(out)
}

/// `.lits`: code -> atomic constraints `[name op value]`
pub fn parse_lits(text: &str) -> Result<HashMap<u32, Vec<(String, String, i64)>>, String> {
    let mut out: HashMap<u32, Vec<(String, String, i64)>> = HashMap::new();
    for line in text.lines() {
        let line = line.trim();
        if line.is_empty() {
            continue;
        }
        let (code, rest) = line.split_once(' ').ok_or_else(|| format!("bad lits line {line:?}"))?;
        let code: u32 = code.parse().map_err(|_| format!("bad code in {line:?}"))?;
        let mut atoms = vec![];
        for part in rest.split(']') {
            let part = part.trim();
            if part.is_empty() {
                continue;
            }
            let inner = part.strip_prefix('[').ok_or_else(|| format!("bad atomic in {line:?}"))?;
            let toks: Vec<&str> = inner.split_whitespace().collect();
            if toks.len() != 3 {
                return Err(format!("bad atomic {inner:?}"));
            }
            let value: i64 = match toks[2] {
                "true" => 1,
                "false" => 0,
                v => v.parse().map_err(|_| format!("bad value in {inner:?}"))?,
            };
            atoms.push((toks[0].to_string(), toks[1].to_string(), value));
        }
        if out.insert(code, atoms).is_some() {
            return Err(format!("code {code} defined twice"));
        }
    }
    Ok(out)
}

// ------------------------------------------------------------------------------------------
// semantics of literals

/// an atomic constraint over a model variable, with 64-bit value
#[derive(Clone, Copy, Debug, PartialEq, Eq, Hash)]
pub struct Atom {
    pub var: usize,
    /// 0 >=, 1 <=, 2 ==, 3 !=
    pub op: u8,
    pub val: i64,
}

impl Atom {
    pub fn holds(&self, x: i64) -> bool {
        match self.op {
            0 => x >= self.val,
            1 => x <= self.val,
            2 => x == self.val,
            _ => x != self.val,
        }
    }
    pub fn negated(&self) -> Atom {
        match self.op {
            0 => Atom { var: self.var, op: 1, val: self.val - 1 },
            1 => Atom { var: self.var, op: 0, val: self.val + 1 },
            2 => Atom { var: self.var, op: 3, val: self.val },
            _ => Atom { var: self.var, op: 2, val: self.val },
        }
    }
}

pub struct Checker<'a> {
    pub m: &'a Model,
    pub names: HashMap<String, usize>,
    pub lits: HashMap<u32, Vec<(String, String, i64)>>,
}

impl Checker<'_> {
    pub fn atom(&self, code: i64) -> Result<Atom, String> {
        let defs = self.lits.get(&(code.unsigned_abs() as u32)).ok_or_else(|| format!("literal code {code} has no definition in the .lits file"))?;
        let (name, op, val) = defs.first().ok_or_else(|| format!("literal code {code} has an empty definition"))?;
        let var = *self.names.get(name).ok_or_else(|| format!("literal code {code} refers to the unknown variable {name}"))?;
        let op = match op.as_str() {
            ">=" => 0,
            "<=" => 1,
            "==" => 2,
            "!=" => 3,
            o => return Err(format!("unknown comparison {o}")),
        };
        let a = Atom { var, op, val: *val };
        Ok(if code > 0 { a } else { a.negated() })
    }
}

/// explicit-domain propagation: clauses are disjunctions of atoms; returns true if a conflict follows
fn reverse_propagation(m: &Model, assert: &[Atom], clauses: &[Vec<Atom>]) -> bool {
    let mut doms: Vec<Vec<i32>> = m.vars.iter().map(|d| d.values()).collect();
    for a in assert {
        doms[a.var].retain(|v| a.holds(*v as i64));
        if doms[a.var].is_empty() {
            return true;
        }
    }
    loop {
        let mut changed = false;
        for c in clauses {
            let mut undetermined: Option<&Atom> = None;
            let mut n_undetermined = 0;
            let mut satisfied = false;
            for a in c {
                let d = &doms[a.var];
                let t = d.iter().filter(|v| a.holds(**v as i64)).count();
                if t == d.len() {
                    satisfied = true;
                    break;
                }
                if t > 0 {
                    n_undetermined += 1;
                    undetermined = Some(a);
                }
            }
            if satisfied {
                continue;
            }
            if n_undetermined == 0 {
                return true;
            }
            if n_undetermined == 1 {
                let a = undetermined.unwrap();
                let before = doms[a.var].len();
                doms[a.var].retain(|v| a.holds(*v as i64));
                if doms[a.var].is_empty() {
                    return true;
                }
                if doms[a.var].len() != before {
                    changed = true;
                }
            }
        }
        if !changed {
            return false;
        }
    }
}

pub struct ProofReport {
    pub steps: usize,
    pub nogoods: usize,
    pub nonunit_nogoods: usize,
    pub tagged_inferences: usize,
    pub untagged_inferences: usize,
    pub untagged_unjustified: usize,
    pub conclusion: String,
}

/// `sols`: all solutions of the model; `objective`: (term, maximise) for optimality proofs;
/// `full`: inferences are logged (derivability of nogoods is checked)
pub fn check_proof(
    m: &Model,
    drcp: &str,
    lits: &str,
    sols: &[Vec<i32>],
    objective: Option<(&Term, bool)>,
    full: bool,
    extra_clauses: &[Vec<Atom>],
) -> Result<ProofReport, Failure> {
    let steps = parse_drcp(drcp).map_err(|e| Failure::new("proof:malformed-drcp", e))?;
    let lits_map = parse_lits(lits).map_err(|e| Failure::new("proof:malformed-lits", e))?;
    // the solver's constant-true predicate is an atomic over the variable "Dummy" (always 1): it is
    // modelled as one more variable with the domain {1}
    let mut with_dummy = m.clone();
    with_dummy.vars.push(VarDecl::Interval { lb: 1, ub: 1 });
    let m = &with_dummy;
    let sols_with_dummy: Vec<Vec<i32>> = sols.iter().map(|s| s.iter().copied().chain(std::iter::once(1)).collect()).collect();
    let sols = &sols_with_dummy[..];
    let mut names: HashMap<String, usize> = (0..m.vars.len() - 1).map(|i| (format!("x{}", i), i)).collect();
    let _ = names.insert("Dummy".into(), m.vars.len() - 1);
    let ck = Checker { m, names, lits: lits_map };
    let mut report = ProofReport { steps: steps.len(), nogoods: 0, nonunit_nogoods: 0, tagged_inferences: 0, untagged_inferences: 0, untagged_unjustified: 0, conclusion: String::new() };
    // 1. well-formedness
    let mut last_id = 0u64;
    let mut seen_ids: BTreeMap<u64, usize> = BTreeMap::new();
    for (i, s) in steps.iter().enumerate() {
        match s {
            Step::Inference { id, .. } | Step::Nogood { id, .. } => {
                if *id <= last_id {
                    return Err(Failure::new("proof:step-ids-not-increasing", format!("step id {id} after {last_id}")));
                }
                last_id = *id;
                let _ = seen_ids.insert(*id, i);
                if let Step::Nogood { hints: Some(h), .. } = s {
                    if let Some(bad) = h.iter().find(|x| !seen_ids.contains_key(x) || **x == *id) {
                        return Err(Failure::new("proof:hint-to-unknown-step", format!("nogood {id} has the hint {bad} which is not an earlier step")));
                    }
                }
            }
            Step::Unsat | Step::Optimal(_) => {
                if i + 1 != steps.len() {
                    return Err(Failure::new("proof:conclusion-not-last", "a conclusion is followed by further steps"));
                }
            }
            Step::Delete { .. } => {}
        }
    }
    let Some(conclusion) = steps.last().filter(|s| matches!(s, Step::Unsat | Step::Optimal(_))) else {
        return Err(Failure::new("proof:no-conclusion", "the proof has no conclusion"));
    };
    // the set of solutions every nogood must keep: all solutions for an UNSAT proof; for an optimality
    // proof the nogoods are only required to be derivable (they depend on objective cuts)
    let is_unsat = matches!(conclusion, Step::Unsat);
    // 2./3. steps
    let mut nogoods: Vec<(u64, Vec<Atom>, bool)> = vec![]; // (id, clause, deleted)
    let mut pending_inferences: Vec<Vec<Atom>> = vec![]; // inferences since the previous nogood, as clauses
    let mut cache: std::collections::HashSet<(Option<u32>, Vec<Atom>, Option<Atom>)> = Default::default();
    for s in &steps {
        match s {
            Step::Inference { id, premises, propagated, tag, .. } => {
                let prem: Vec<Atom> = premises.iter().map(|c| ck.atom(*c)).collect::<Result<_, _>>().map_err(|e| Failure::new("proof:undefined-literal", format!("inference {id}: {e}")))?;
                let prop: Option<Atom> = propagated.map(|c| ck.atom(c)).transpose().map_err(|e| Failure::new("proof:undefined-literal", format!("inference {id}: {e}")))?;
                let mut as_clause: Vec<Atom> = prem.iter().map(|a| a.negated()).collect();
                if let Some(p) = prop {
                    as_clause.push(p);
                }
                pending_inferences.push(as_clause.clone());
                let mut key = prem.clone();
                key.sort_by_key(|a| (a.var, a.op, a.val));
                if !cache.insert((*tag, key, prop)) {
                    continue;
                }
                match tag {
                    Some(t) if (*t as usize) <= m.cons.len() && *t >= 1 => {
                        report.tagged_inferences += 1;
                        let c = &m.cons[*t as usize - 1];
                        let mut vars = c.vars();
                        vars.extend(prem.iter().map(|a| a.var));
                        if let Some(p) = prop {
                            vars.push(p.var);
                        }
                        // a literal defined by a predicate brings the predicate's variable (and the definition) along
                        let defined: Vec<usize> = vars.iter().copied().filter(|v| matches!(m.vars[*v], VarDecl::PredLit { .. })).collect();
                        for v in &defined {
                            if let VarDecl::PredLit { pred } = &m.vars[*v] {
                                vars.push(pred.var);
                            }
                        }
                        vars.sort_unstable();
                        vars.dedup();
                        let mut base: Vec<i32> = m.vars.iter().map(|d| d.lb()).collect();
                        let mut witness = None;
                        enumerate(m, &vars, 0, &mut base, &mut |a| {
                            if defined.iter().all(|v| sem::link_holds(m, *v, a)) && prem.iter().all(|p| p.holds(a[p.var] as i64)) && sem::holds_posted(c, a) && !prop.map(|p| p.holds(a[p.var] as i64)).unwrap_or(false) {
                                witness = Some(vars.iter().map(|v| a[*v]).collect::<Vec<_>>());
                                return false;
                            }
                            true
                        });
                        if let Some(w) = witness {
                            return Err(Failure::new(
                                format!("proof:inference-does-not-follow:{}", c.cons.kind()),
                                format!("inference {id}: premises {:?} do not imply {:?} for the tagged constraint #{} {:?}: variables {:?} = {:?}", prem, prop, t - 1, c, vars, w),
                            ));
                        }
                    }
                    Some(t) => return Err(Failure::new("proof:unknown-tag", format!("inference {id} is tagged with {t} but only {} constraints were posted", m.cons.len()))),
                    None => {
                        report.untagged_inferences += 1;
                        // a single clause which justifies it: an earlier nogood of the proof, a clause of the model
                        let justified = nogoods.iter().filter(|n| !n.2).map(|n| &n.1).chain(extra_clauses.iter()).any(|c| {
                            let mut assert: Vec<Atom> = prem.clone();
                            if let Some(p) = prop {
                                assert.push(p.negated());
                            }
                            reverse_propagation(m, &assert, std::slice::from_ref(c))
                        });
                        if !justified {
                            report.untagged_unjustified += 1;
                            if is_unsat {
                                if let Some(s) = sols.iter().find(|s| prem.iter().all(|p| p.holds(s[p.var] as i64)) && !prop.map(|p| p.holds(s[p.var] as i64)).unwrap_or(false)) {
                                    return Err(Failure::new("proof:untagged-inference-unsound", format!("inference {id}: {:?} -> {:?} is violated by the solution {:?}", prem, prop, s)));
                                }
                            }
                        }
                    }
                }
            }
            Step::Nogood { id, literals, .. } => {
                let clause: Vec<Atom> = literals.iter().map(|c| ck.atom(*c)).collect::<Result<_, _>>().map_err(|e| Failure::new("proof:undefined-literal", format!("nogood {id}: {e}")))?;
                report.nogoods += 1;
                if clause.len() >= 2 {
                    report.nonunit_nogoods += 1;
                }
                if is_unsat {
                    if let Some(s) = sols.iter().find(|s| !clause.iter().any(|a| a.holds(s[a.var] as i64))) {
                        return Err(Failure::new("proof:nogood-not-implied", format!("nogood {id} {:?} is violated by the solution {:?} of the model", clause, s)));
                    }
                }
                if full {
                    let assert: Vec<Atom> = clause.iter().map(|a| a.negated()).collect();
                    let mut db: Vec<Vec<Atom>> = nogoods.iter().filter(|n| !n.2).map(|n| n.1.clone()).collect();
                    db.extend(pending_inferences.iter().cloned());
                    db.extend(extra_clauses.iter().cloned());
                    if !reverse_propagation(m, &assert, &db) {
                        return Err(Failure::new(
                            "proof:nogood-not-derivable",
                            format!("nogood {id} {:?} does not follow by propagating its negation with the {} earlier nogoods and the {} inferences logged for it", clause, nogoods.len(), pending_inferences.len()),
                        ));
                    }
                }
                pending_inferences.clear();
                nogoods.push((*id, clause, false));
            }
            Step::Delete { id } => {
                if let Some(n) = nogoods.iter_mut().find(|n| n.0 == *id) {
                    n.2 = true;
                }
            }
            Step::Unsat | Step::Optimal(_) => {}
        }
    }
    // 4. conclusion
    match conclusion {
        Step::Unsat => {
            report.conclusion = "unsat".into();
            if !nogoods.iter().any(|n| n.1.is_empty()) {
                return Err(Failure::new("proof:unsat-without-empty-nogood", "the UNSAT conclusion is not preceded by the empty nogood"));
            }
            if let Some(s) = sols.first() {
                return Err(Failure::new("proof:unsat-but-sat", format!("the proof concludes UNSAT but {:?} is a solution", s)));
            }
        }
        Step::Optimal(code) => {
            report.conclusion = "optimal".into();
            let bound = ck.atom(*code).map_err(|e| Failure::new("proof:undefined-literal", format!("conclusion: {e}")))?;
            let Some((obj, maximise)) = objective else {
                return Err(Failure::new("proof:optimality-conclusion-without-objective", "optimality concluded for a satisfaction problem"));
            };
            let best = sols.iter().map(|s| sem::tv(obj, s)).fold(None, |acc: Option<i128>, v| Some(acc.map_or(v, |x| if maximise { x.max(v) } else { x.min(v) })));
            let Some(best) = best else {
                return Err(Failure::new("proof:optimal-but-unsat", "optimality concluded but the model has no solution"));
            };
            // a dual bound: every solution satisfies it ...
            if let Some(s) = sols.iter().find(|s| !bound.holds(s[bound.var] as i64)) {
                return Err(Failure::new(
                    if maximise { "proof:bound-not-dual:maximise" } else { "proof:bound-not-dual:minimise" },
                    format!("the concluded bound {:?} is not implied by the model: the solution {:?} violates it (objective {:?}, optimum {})", bound, s, obj, best),
                ));
            }
            // ... over the objective variable, and tight: it excludes every value of the objective
            // variable which would be strictly better than the optimum
            if matches!(m.vars[obj.var], VarDecl::PredLit { .. }) {
                // the objective is a literal which the proof replaces by its defining predicate (or by
                // the trivially true atom): the bound is then stated over another variable and only its
                // soundness (above) can be judged
                return Ok(report);
            }
            if bound.var != obj.var {
                return Err(Failure::new("proof:bound-on-other-variable", format!("the concluded bound {:?} is not over the objective variable {}", bound, obj.var)));
            }
            let better_but_allowed = m.vars[obj.var].values().into_iter().find(|v| {
                let val = obj.scale as i128 * *v as i128 + obj.offset as i128;
                (if maximise { val > best } else { val < best }) && bound.holds(*v as i64)
            });
            if let Some(v) = better_but_allowed {
                return Err(Failure::new(
                    if maximise { "proof:bound-not-tight:maximise" } else { "proof:bound-not-tight:minimise" },
                    format!("the concluded bound {:?} allows the objective variable to take {} which is better than the optimum {} (objective {:?})", bound, v, best, obj),
                ));
            }
        }
        _ => unreachable!(),
    }
    Ok(report)
}

fn enumerate(m: &Model, vars: &[usize], k: usize, a: &mut Vec<i32>, f: &mut dyn FnMut(&[i32]) -> bool) -> bool {
    if k == vars.len() {
        return f(a);
    }
    for v in m.vars[vars[k]].values() {
        a[vars[k]] = v;
        if !enumerate(m, vars, k + 1, a, f) {
            return false;
        }
    }
    true
}

/// clauses which the model itself contributes (add_clause / clause constraints), as atoms
pub fn model_clauses(m: &Model) -> Vec<Vec<Atom>> {
    let lit = |l: &Lit| Atom { var: l.var, op: if l.neg { 1 } else { 0 }, val: if l.neg { 0 } else { 1 } };
    let pred = |p: &Pred| Atom { var: p.var, op: match p.kind { PKind::Ge => 0, PKind::Le => 1, PKind::Eq => 2, PKind::Ne => 3 }, val: p.val as i64 };
    let mut out = vec![];
    // the definition of a literal for a predicate: two clauses
    for (i, d) in m.vars.iter().enumerate() {
        if let VarDecl::PredLit { pred: p } = d {
            out.push(vec![Atom { var: i, op: 1, val: 0 }, pred(p)]);
            out.push(vec![Atom { var: i, op: 0, val: 1 }, pred(&p.negated())]);
        }
    }
    for p in &m.cons {
        match (&p.cons, p.mode) {
            (Cons::PredClause { preds }, Mode::Post) => out.push(preds.iter().map(pred).collect()),
            (Cons::ViewClause { atoms }, Mode::Post) => {
                // a predicate over the view s*x + o is an atom over x (or trivially true / false)
                let mut clause = vec![];
                let mut tautology = false;
                for a in atoms {
                    let (s, num) = (a.term.scale as i64, a.val as i64 - a.term.offset as i64);
                    let exact = num % s == 0;
                    // floor and ceiling of num / s for either sign of s (div_euclid rounds down for s > 0, up for s < 0)
                    let q = num.div_euclid(s);
                    let floor = if s > 0 || exact { q } else { q - 1 };
                    let ceil = if s < 0 || exact { q } else { q + 1 };
                    match a.kind {
                        PKind::Ge => clause.push(if s > 0 { Atom { var: a.term.var, op: 0, val: ceil } } else { Atom { var: a.term.var, op: 1, val: floor } }),
                        PKind::Le => clause.push(if s > 0 { Atom { var: a.term.var, op: 1, val: floor } } else { Atom { var: a.term.var, op: 0, val: ceil } }),
                        PKind::Eq => {
                            if exact {
                                clause.push(Atom { var: a.term.var, op: 2, val: num / s })
                            }
                        }
                        PKind::Ne => {
                            if exact {
                                clause.push(Atom { var: a.term.var, op: 3, val: num / s })
                            } else {
                                tautology = true
                            }
                        }
                    }
                }
                if !tautology {
                    out.push(clause)
                }
            }
            (Cons::Clause { lits }, Mode::Post) => out.push(lits.iter().map(lit).collect()),
            (Cons::Clause { lits }, Mode::ImpliedBy(r)) => {
                let mut c: Vec<Atom> = lits.iter().map(lit).collect();
                c.push(lit(&Lit { var: r.var, neg: !r.neg }));
                out.push(c)
            }
            (Cons::Conj { lits }, Mode::Post) => lits.iter().for_each(|l| out.push(vec![lit(l)])),
            (Cons::Conj { lits }, Mode::ImpliedBy(r)) => lits.iter().for_each(|l| out.push(vec![lit(l), lit(&Lit { var: r.var, neg: !r.neg })])),
            _ => {}
        }
    }
    out
}

// ------------------------------------------------------------------------------------------
// property

pub struct ProofProp;

impl Property for ProofProp {
    type Case = ProofCase;
    fn id(&self) -> &'static str {
        "C06"
    }
    fn level(&self) -> &'static str {
        "translation_validation"
    }
    fn rule(&self) -> String {
        "generated models (every variable named, every constraint tagged) solved through the library with ProofLog::cp for scaffold / full / hinted proofs, UIP learning with/without minimisation and restarts, ending in UNSAT by search, UNSAT at posting time or optimality (both procedures, both directions, view objectives); every emitted proof is validated by the harness's independent checker: well-formedness (increasing ids, conclusion last, hints to earlier steps, every code defined in .lits), every tagged inference by brute force against the meaning of the tagged constraint over the declared domains, every nogood semantically (kept by every solution, for UNSAT proofs) and - for full proofs - by explicit-domain reverse propagation from the earlier nogoods and the inferences logged for it, and the conclusion (UNSAT after the empty nogood and no solution; optimality bound implied by the model and tight). programs = proofs checked. Non-trivial: a proof with >=2 non-unit nogoods and >=1 tagged inference, or an optimality proof with >=1 nogood; distinct by hash of (model, procedure, proof type).".into()
    }
    fn assumptions(&self) -> Vec<String> {
        vec![
            "the checker of harness/src/props/proof.rs (explicit-domain entailment is at least as strong as any bounds-based DRCP checker)".into(),
            "a run which ends Satisfiable writes no conclusion and is not a certificate (skipped)".into(),
        ]
    }
    fn strategy(&self, tier: Tier) -> BoxedStrategy<ProofCase> {
        let mut p = GenParams::standard();
        p.min_cons = 1;
        p.max_cons = 6;
        p.plant_permille = 450;
        p.mode_permille = 100;
        p.space_limit = if tier == Tier::Quick { 1200 } else { 6000 };
        let pp = p.clone();
        // one case in six is a scheduling model (several cumulative tasks, unplanted so that many are infeasible):
        // the incremental time-table propagators report conflicts late, which exercises the completion of the
        // proof away from the root level
        let mut pp_cum = p.clone();
        pp_cum.kinds = vec![(K::Cumulative, 10), (K::BinLe, 2), (K::BinLt, 1), (K::BinNe, 2), (K::LinLe, 1)];
        pp_cum.min_cons = 1;
        pp_cum.max_cons = 3;
        pp_cum.max_vars = 8;
        pp_cum.max_tasks = 6;
        pp_cum.max_dur = 5;
        pp_cum.small_dom_permille = 550;
        pp_cum.max_dom = 7;
        pp_cum.lb_span = 3;
        pp_cum.mode_permille = 0;
        pp_cum.plant_permille = 100;
        pp_cum.pred_literals = false;
        let pc = pp_cum.clone();
        (raw_model_strategy(&p), raw_model_strategy(&pp_cum), raw_config_strategy(), any::<u8>(), 0u8..3, (any::<u16>(), -3i8..=3, -3i8..=3), any::<bool>())
            .prop_map(move |((rv, rc), (cv, cc), rcfg, path, proof_type, obj, maximise)| {
                let mut model = if path % 6 == 5 { build_model(&pc, &cv, &cc) } else { build_model(&pp, &rv, &rc) };
                for c in model.cons.iter_mut() {
                    c.tag = true;
                }
                let mut cfg = build_config(&rcfg);
                cfg.named = true;
                cfg.no_learning = false;
                let path = [0u8, 0, 1, 2][path as usize % 4];
                let objective = build_objective(&model, &obj);
                ProofCase { model, cfg, path, proof_type, objective, maximise }
            })
            .boxed()
    }
    fn cases(&self, tier: Tier) -> u64 {
        match tier {
            Tier::Quick => 400_000,
            Tier::Thorough => 4_000_000,
        }
    }
    fn floors(&self, _tier: Tier) -> Vec<(&'static str, f64)> {
        vec![("proof:unsat", 0.1), ("proof:optimal", 0.15), ("type:2", 0.2)]
    }
    fn feature(&self, case: &ProofCase, name: &str) -> bool {
        match name {
            "minimise" => case.path != 0 && !case.maximise,
            "maximise" => case.path != 0 && case.maximise,
            _ => crate::props::features::model_feature(&case.model, name),
        }
    }
    fn run(&self, case: &ProofCase) -> Verdict {
        let m = &case.model;
        let mut out = Outcome::default();
        model_classes(m, &mut out.classes);
        config_classes(&case.cfg, &mut out.classes);
        out.classes.push(format!("type:{}", case.proof_type));
        let sols = sem::solutions(m, 5_000_000).expect("harness: enumeration limit");
        let path = scratch_file("drcp");
        let lits_path = path.with_extension("lits");
        let proof = cp_proof(&path, case.proof_type >= 1, case.proof_type == 2);
        let mut b = Built::from_model(m, &case.cfg, Some(proof));
        let mut concluded = b.infeasible_at_post();
        let mut result = "post_error".to_string();
        if concluded {
            // what a user does after a posting error: ask for the verdict (which also concludes the proof)
            let mut br = b.brancher(&case.cfg.brancher);
            let mut t = CountingTermination::budget(1000);
            let r = satisfy(&mut b, &mut br, &mut t);
            if r != SatRes::Unsat {
                return Err(Failure::new("proof:sat-after-post-error", format!("satisfy after a posting error returned {:?}", r)));
            }
        }
        if !concluded {
            let mut br = b.brancher(&case.cfg.brancher);
            let mut t = CountingTermination::budget(60_000);
            match case.path {
                0 => {
                    let r = satisfy(&mut b, &mut br, &mut t);
                    concluded = r == SatRes::Unsat;
                    result = format!("{:?}", r).chars().take(20).collect();
                }
                _ => {
                    let (r, _) = optimise(&mut b, &mut br, &mut t, case.path == 1, case.maximise, &case.objective);
                    concluded = matches!(r, OptRes::Optimal(_) | OptRes::Unsat);
                    result = format!("{:?}", r).chars().take(20).collect();
                }
            }
            out.inconclusive = t.exhausted;
        }
        drop(b);
        let drcp = std::fs::read_to_string(&path).unwrap_or_default();
        let lits = std::fs::read_to_string(&lits_path).unwrap_or_default();
        cleanup(&[&path, &lits_path]);
        if !concluded {
            out.classes.push("no_conclusion".into());
            return Ok(out);
        }
        let objective = if case.path == 0 { None } else { Some((&case.objective, case.maximise)) };
        let extra = model_clauses(m);
        let report = check_proof(m, &drcp, &lits, &sols, objective, case.proof_type >= 1, &extra).map_err(|mut f| {
            f.msg = format!("{} | result {} | proof:\n{}\nlits:\n{}", f.msg, result, crate::props::dimacs::truncate(&drcp), crate::props::dimacs::truncate(&lits));
            f
        })?;
        out.classes.push(format!("proof:{}", report.conclusion));
        out.counters.push(("programs".into(), 1));
        out.counters.push(("proof_steps".into(), report.steps as u64));
        out.counters.push(("nogoods".into(), report.nogoods as u64));
        out.counters.push(("tagged_inferences_checked".into(), report.tagged_inferences as u64));
        out.counters.push(("untagged_inferences".into(), report.untagged_inferences as u64));
        out.counters.push(("untagged_without_single_justifying_clause".into(), report.untagged_unjustified as u64));
        if (report.nonunit_nogoods >= 2 && report.tagged_inferences >= 1) || (report.conclusion == "optimal" && report.nogoods >= 1) {
            out.nontrivial = Some(hash_of(&(m, case.path, case.proof_type, case.maximise, case.objective)));
        }
        out.observed = Some(json!({"result": result, "steps": report.steps, "nogoods": report.nogoods, "tagged_inferences": report.tagged_inferences, "conclusion": report.conclusion}));
        Ok(out)
    }
}
