//! Performs exactly the API calls a user would make for a model of the IR.
use std::num::NonZero;
use std::path::Path;

use pumpkin_solver::branching::branchers::alternating_brancher::{AlternatingBrancher, AlternatingStrategy};
use pumpkin_solver::branching::branchers::autonomous_search::AutonomousSearch;
use pumpkin_solver::branching::branchers::dynamic_brancher::DynamicBrancher;
use pumpkin_solver::branching::branchers::independent_variable_value_brancher::IndependentVariableValueBrancher;
use pumpkin_solver::branching::tie_breaking::{Direction, InOrderTieBreaker, RandomTieBreaker};
use pumpkin_solver::branching::value_selection::*;
use pumpkin_solver::branching::variable_selection::*;
use pumpkin_solver::branching::{Brancher, BrancherEvent, SelectionContext};
use pumpkin_solver::constraints::{self, Constraint, NegatableConstraint};
use pumpkin_solver::options::*;
use pumpkin_solver::predicates::Predicate;
use pumpkin_solver::proof::{Format, ProofLog};
use pumpkin_solver::results::{ProblemSolution, Solution, SolutionReference};
use pumpkin_solver::termination::TerminationCondition;
use pumpkin_solver::variables::{AffineView, DomainId, Literal, TransformableVariable};
use pumpkin_solver::verif_hooks::Assignments;
use pumpkin_solver::Solver;
use rand::rngs::SmallRng;
use rand::SeedableRng;
use serde::{Deserialize, Serialize};

use crate::ir::*;

// ------------------------------------------------------------------------------------------
// configuration

#[derive(Clone, Debug, PartialEq, Eq, Hash, Serialize, Deserialize)]
pub struct RestartCfg {
    /// 0 constant, 1 geometric, 2 luby
    pub seq: u8,
    pub base_interval: u64,
    pub min_first: u64,
    pub lbd_coef_x100: u32,
    pub num_assigned_coef_x100: u32,
    pub window: u64,
    pub geometric_coef_x100: u32,
    pub no_restarts: bool,
}

#[derive(Clone, Debug, PartialEq, Eq, Hash, Serialize, Deserialize)]
pub struct LearnCfg {
    pub max_activity_exp: i32,
    pub decay_x1000: u32,
    pub limit_high_lbd: usize,
    pub lbd_threshold: u32,
    pub sort_by_activity: bool,
    pub bump_x100: u32,
}

#[derive(Clone, Debug, PartialEq, Eq, Hash, Serialize, Deserialize)]
pub struct Sel {
    /// 0..10: AntiFirstFail FirstFail InputOrder Largest MaxRegret MostConstrained Occurrence
    /// ProportionalDomainSize Random Smallest
    pub vs: u8,
    /// 0..14: InDomainInterval Max Median Middle Min Random Split SplitRandom OutDomainMax
    /// OutDomainMedian OutDomainMin OutDomainRandom RandomSplitter ReverseInDomainSplit
    pub vl: u8,
    pub tie_random: bool,
    /// wrap the selectors in DynamicVariableSelector / DynamicValueSelector
    pub dynamic: bool,
}

pub const NUM_VS: u8 = 10;
pub const NUM_VL: u8 = 14;
pub const VS_NAMES: [&str; 10] = [
    "AntiFirstFail", "FirstFail", "InputOrder", "Largest", "MaxRegret", "MostConstrained", "Occurrence",
    "ProportionalDomainSize", "Random", "Smallest",
];
pub const VL_NAMES: [&str; 14] = [
    "InDomainInterval", "InDomainMax", "InDomainMedian", "InDomainMiddle", "InDomainMin", "InDomainRandom",
    "InDomainSplit", "InDomainSplitRandom", "OutDomainMax", "OutDomainMedian", "OutDomainMin", "OutDomainRandom",
    "RandomSplitter", "ReverseInDomainSplit",
];

#[derive(Clone, Debug, PartialEq, Eq, Hash, Serialize, Deserialize)]
pub enum BrSpec {
    /// `Solver::default_brancher()`
    Default,
    /// IndependentVariableValueBrancher over all variables
    Indep(Sel),
    /// DynamicBrancher over a partition of the variables: variable i goes to part `i % parts.len()`
    /// when `interleave`, otherwise to consecutive blocks
    /// `build`: 0 `DynamicBrancher::new(all)`, 1 `new([first])` + `add_brancher` for the rest, 2 the rest as a
    /// nested `DynamicBrancher` added with `add_brancher`, 3 `new([])` + `add_brancher` for all
    Dynamic {
        parts: Vec<Sel>,
        interleave: bool,
        #[serde(default)]
        build: u8,
    },
    /// AlternatingBrancher; strategy 0..4
    Alternating { strategy: u8, other: Sel },
    /// AutonomousSearch::new(custom backup)
    AutoCustom(Sel),
}

#[derive(Clone, Debug, PartialEq, Eq, Hash, Serialize, Deserialize)]
pub struct Config {
    pub no_learning: bool,
    pub minimise: bool,
    pub seed: u64,
    pub named: bool,
    pub restart: RestartCfg,
    pub learning: LearnCfg,
    pub brancher: BrSpec,
}

impl Config {
    pub fn default_cfg() -> Config {
        Config {
            no_learning: false,
            minimise: true,
            seed: 42,
            named: false,
            restart: RestartCfg {
                seq: 0,
                base_interval: 50,
                min_first: 10000,
                lbd_coef_x100: 125,
                num_assigned_coef_x100: 140,
                window: 5000,
                geometric_coef_x100: 0,
                no_restarts: false,
            },
            learning: LearnCfg {
                max_activity_exp: 20,
                decay_x1000: 990,
                limit_high_lbd: 4000,
                lbd_threshold: 5,
                sort_by_activity: false,
                bump_x100: 100,
            },
            brancher: BrSpec::Default,
        }
    }

    pub fn solver_options(&self, proof: Option<ProofLog>) -> SolverOptions {
        SolverOptions {
            restart_options: RestartOptions {
                sequence_generator_type: match self.restart.seq {
                    0 => SequenceGeneratorType::Constant,
                    1 => SequenceGeneratorType::Geometric,
                    _ => SequenceGeneratorType::Luby,
                },
                base_interval: self.restart.base_interval.max(1),
                min_num_conflicts_before_first_restart: self.restart.min_first,
                lbd_coef: self.restart.lbd_coef_x100 as f64 / 100.0,
                num_assigned_coef: self.restart.num_assigned_coef_x100 as f64 / 100.0,
                num_assigned_window: self.restart.window.max(1),
                geometric_coef: if self.restart.seq == 1 {
                    Some(1.0 + self.restart.geometric_coef_x100 as f64 / 100.0)
                } else {
                    None
                },
                no_restarts: self.restart.no_restarts,
            },
            learning_clause_minimisation: self.minimise,
            random_generator: SmallRng::seed_from_u64(self.seed),
            proof_log: proof.unwrap_or_default(),
            conflict_resolver: if self.no_learning { ConflictResolver::NoLearning } else { ConflictResolver::UIP },
            learning_options: LearningOptions {
                max_activity: 10f32.powi(self.learning.max_activity_exp),
                activity_decay_factor: self.learning.decay_x1000 as f32 / 1000.0,
                limit_num_high_lbd_nogoods: self.learning.limit_high_lbd,
                lbd_threshold: self.learning.lbd_threshold,
                nogood_sorting_strategy: if self.learning.sort_by_activity {
                    LearnedNogoodSortingStrategy::Activity
                } else {
                    LearnedNogoodSortingStrategy::Lbd
                },
                activity_bump_increment: self.learning.bump_x100 as f32 / 100.0,
            },
        }
    }
}

pub fn cp_proof(path: &Path, inferences: bool, hints: bool) -> ProofLog {
    ProofLog::cp(path, Format::Text, inferences, hints).expect("create proof file")
}

// ------------------------------------------------------------------------------------------
// termination

/// Counts polls; fires from poll `stop_at` on; records whether the deterministic budget was hit.
#[derive(Debug, Clone)]
pub struct CountingTermination {
    pub polls: u64,
    pub stop_at: Option<u64>,
    pub budget: u64,
    pub exhausted: bool,
    pub fired: bool,
}

impl CountingTermination {
    pub fn budget(budget: u64) -> Self {
        CountingTermination { polls: 0, stop_at: None, budget, exhausted: false, fired: false }
    }
    pub fn stop_at(k: u64, budget: u64) -> Self {
        CountingTermination { polls: 0, stop_at: Some(k), budget, exhausted: false, fired: false }
    }
}

impl TerminationCondition for CountingTermination {
    fn should_stop(&mut self) -> bool {
        let idx = self.polls;
        self.polls += 1;
        if let Some(k) = self.stop_at {
            if idx >= k {
                self.fired = true;
                return true;
            }
        }
        if idx >= self.budget {
            self.exhausted = true;
            return true;
        }
        false
    }
}

// ------------------------------------------------------------------------------------------
// observing brancher

#[derive(Debug, Clone, Default)]
pub struct BrStats {
    pub decisions: u64,
    pub conflicts: u64,
    pub backtracks: u64,
    pub restarts: u64,
    pub solutions: u64,
    pub nones: u64,
    /// decisions whose predicate was already assigned when proposed
    pub assigned_decisions: Vec<String>,
    /// `None` while one of the brancher's variables was unfixed
    pub premature_none: Vec<String>,
    /// decision over a variable the brancher was not given
    pub foreign_decisions: Vec<String>,
}

/// Forwards every callback to the wrapped brancher (like the solver would call it directly) and
/// judges each decision when `check` is set.
pub struct ObsBrancher {
    pub inner: Box<dyn Brancher>,
    pub stats: BrStats,
    pub check: bool,
    pub trace: bool,
    /// variables the wrapped brancher is responsible for
    pub vars: Vec<DomainId>,
}

impl std::fmt::Debug for ObsBrancher {
    fn fmt(&self, f: &mut std::fmt::Formatter<'_>) -> std::fmt::Result {
        f.debug_struct("ObsBrancher").finish()
    }
}

impl ObsBrancher {
    pub fn new(inner: Box<dyn Brancher>, vars: Vec<DomainId>) -> Self {
        ObsBrancher { inner, stats: BrStats::default(), check: false, trace: std::env::var("VERIF_TRACE").is_ok(), vars }
    }
}

impl Brancher for ObsBrancher {
    fn next_decision(&mut self, context: &mut SelectionContext) -> Option<Predicate> {
        let d = self.inner.next_decision(context);
        if self.trace {
            let doms: Vec<String> = self
                .vars
                .iter()
                .map(|v| {
                    let (lb, ub) = (context.lower_bound(*v), context.upper_bound(*v));
                    if ub as i64 - lb as i64 > 64 {
                        format!("x{}:[{}..{}]", v.id, lb, ub)
                    } else {
                        format!("x{}:{:?}", v.id, (lb..=ub).filter(|x| context.contains(*v, *x)).collect::<Vec<_>>())
                    }
                })
                .collect();
            eprintln!("  domains {} -> decision {:?}", doms.join(" "), d);
        }
        match d {
            Some(p) => {
                self.stats.decisions += 1;
                if self.check {
                    if context.is_predicate_assigned(p) && self.stats.assigned_decisions.len() < 4 {
                        let dom = p.get_domain();
                        self.stats.assigned_decisions.push(format!(
                            "decision {:?} already assigned; domain of x{} is [{}, {}]",
                            p,
                            dom.id,
                            context.lower_bound(dom),
                            context.upper_bound(dom)
                        ));
                    }
                    if !self.vars.contains(&p.get_domain()) && self.stats.foreign_decisions.len() < 4 {
                        self.stats.foreign_decisions.push(format!("decision {:?} over a foreign variable", p));
                    }
                }
            }
            None => {
                self.stats.nones += 1;
                if self.check {
                    for v in &self.vars {
                        if !context.is_integer_fixed(*v) && self.stats.premature_none.len() < 4 {
                            self.stats.premature_none.push(format!(
                                "no decision although x{} in [{}, {}] is unfixed",
                                v.id,
                                context.lower_bound(*v),
                                context.upper_bound(*v)
                            ));
                        }
                    }
                }
            }
        }
        d
    }
    fn on_conflict(&mut self) {
        if self.trace {
            eprintln!("  conflict");
        }
        self.stats.conflicts += 1;
        self.inner.on_conflict()
    }
    fn on_backtrack(&mut self) {
        if self.trace {
            eprintln!("  backtrack");
        }
        self.stats.backtracks += 1;
        self.inner.on_backtrack()
    }
    fn on_solution(&mut self, solution: SolutionReference) {
        self.stats.solutions += 1;
        self.inner.on_solution(solution)
    }
    fn on_unassign_integer(&mut self, variable: DomainId, value: i32) {
        self.inner.on_unassign_integer(variable, value)
    }
    fn on_appearance_in_conflict_predicate(&mut self, predicate: Predicate) {
        self.inner.on_appearance_in_conflict_predicate(predicate)
    }
    fn on_restart(&mut self) {
        self.stats.restarts += 1;
        self.inner.on_restart()
    }
    fn synchronise(&mut self, assignments: &Assignments) {
        self.inner.synchronise(assignments)
    }
    fn is_restart_pointless(&mut self) -> bool {
        self.inner.is_restart_pointless()
    }
    fn subscribe_to_events(&self) -> Vec<BrancherEvent> {
        self.inner.subscribe_to_events()
    }
}

fn var_selector(sel: &Sel, vars: &[DomainId], occ: &[u32], seed: u64) -> Box<dyn VariableSelector<DomainId>> {
    macro_rules! tb {
        ($ty:ident, $dir:expr) => {
            if sel.tie_random {
                Box::new($ty::with_tie_breaker(
                    vars,
                    RandomTieBreaker::new($dir, Box::new(SmallRng::seed_from_u64(seed ^ 0x5eed))),
                ))
            } else {
                Box::new($ty::with_tie_breaker(vars, InOrderTieBreaker::new($dir)))
            }
        };
    }
    match sel.vs {
        0 => tb!(AntiFirstFail, Direction::Maximum),
        1 => tb!(FirstFail, Direction::Minimum),
        2 => Box::new(InputOrder::new(vars)),
        3 => tb!(Largest, Direction::Maximum),
        4 => tb!(MaxRegret, Direction::Maximum),
        5 => pumpkin_solver::verif_hooks::most_constrained_selector(vars, occ),
        6 => Box::new(Occurrence::new(vars, occ)),
        7 => Box::new(ProportionalDomainSize::new(vars)),
        8 => Box::new(RandomSelector::new(vars.iter().copied())),
        _ => tb!(Smallest, Direction::Minimum),
    }
}

fn val_selector(sel: &Sel) -> Box<dyn ValueSelector<DomainId>> {
    match sel.vl {
        0 => Box::new(InDomainInterval),
        1 => Box::new(InDomainMax),
        2 => Box::new(InDomainMedian),
        3 => Box::new(InDomainMiddle),
        4 => Box::new(InDomainMin),
        5 => Box::new(InDomainRandom),
        6 => Box::new(InDomainSplit),
        7 => Box::new(InDomainSplitRandom),
        8 => Box::new(OutDomainMax),
        9 => Box::new(OutDomainMedian),
        10 => Box::new(OutDomainMin),
        11 => Box::new(OutDomainRandom),
        12 => Box::new(RandomSplitter),
        _ => Box::new(ReverseInDomainSplit),
    }
}

type DynIndep =
    IndependentVariableValueBrancher<DomainId, DynamicVariableSelector<DomainId>, DynamicValueSelector<DomainId>>;

fn indep(sel: &Sel, vars: &[DomainId], occ: &[u32], seed: u64) -> DynIndep {
    IndependentVariableValueBrancher::new(
        DynamicVariableSelector::new(var_selector(sel, vars, occ, seed)),
        DynamicValueSelector::new(val_selector(sel)),
    )
}

/// A handful of statically typed combinations (the way the documentation constructs them).
fn indep_static(sel: &Sel, vars: &[DomainId]) -> Option<Box<dyn Brancher>> {
    Some(match (sel.vs, sel.vl) {
        (2, 4) => Box::new(IndependentVariableValueBrancher::new(InputOrder::new(vars), InDomainMin)),
        (2, 1) => Box::new(IndependentVariableValueBrancher::new(InputOrder::new(vars), InDomainMax)),
        (1, 6) => Box::new(IndependentVariableValueBrancher::new(FirstFail::new(vars), InDomainSplit)),
        (0, 13) => Box::new(IndependentVariableValueBrancher::new(AntiFirstFail::new(vars), ReverseInDomainSplit)),
        (9, 2) => Box::new(IndependentVariableValueBrancher::new(Smallest::new(vars), InDomainMedian)),
        (3, 3) => Box::new(IndependentVariableValueBrancher::new(Largest::new(vars), InDomainMiddle)),
        (8, 12) => {
            Box::new(IndependentVariableValueBrancher::new(RandomSelector::new(vars.iter().copied()), RandomSplitter))
        }
        (4, 0) => Box::new(IndependentVariableValueBrancher::new(MaxRegret::new(vars), InDomainInterval)),
        (7, 5) => Box::new(IndependentVariableValueBrancher::new(ProportionalDomainSize::new(vars), InDomainRandom)),
        _ => return None,
    })
}

fn boxed_indep(sel: &Sel, vars: &[DomainId], occ: &[u32], seed: u64) -> Box<dyn Brancher> {
    if !sel.dynamic && !sel.tie_random {
        if let Some(b) = indep_static(sel, vars) {
            return b;
        }
    }
    Box::new(indep(sel, vars, occ, seed))
}

// ------------------------------------------------------------------------------------------
// building

pub struct Built {
    pub solver: Solver,
    pub doms: Vec<DomainId>,
    pub lits: Vec<Option<Literal>>,
    /// per posted constraint: Ok / Err
    pub post_ok: Vec<bool>,
    pub named: bool,
    pub seed: u64,
    pub occ: Vec<u32>,
}

pub type View = AffineView<DomainId>;

impl Built {
    pub fn new(cfg: &Config, proof: Option<ProofLog>) -> Built {
        Built {
            solver: Solver::with_options(cfg.solver_options(proof)),
            doms: vec![],
            lits: vec![],
            post_ok: vec![],
            named: cfg.named,
            seed: cfg.seed,
            occ: vec![],
        }
    }

    pub fn from_model(model: &Model, cfg: &Config, proof: Option<ProofLog>) -> Built {
        let mut b = Built::new(cfg, proof);
        for v in &model.vars {
            b.add_var(v);
        }
        for (i, p) in model.cons.iter().enumerate() {
            b.post(p, i);
        }
        b
    }

    pub fn infeasible_at_post(&self) -> bool {
        self.post_ok.iter().any(|ok| !ok)
    }

    pub fn add_var(&mut self, decl: &VarDecl) -> usize {
        let idx = self.doms.len();
        let name = format!("x{}", idx);
        match decl {
            VarDecl::Interval { lb, ub } => {
                let d = if self.named {
                    self.solver.new_named_bounded_integer(*lb, *ub, name)
                } else {
                    self.solver.new_bounded_integer(*lb, *ub)
                };
                self.doms.push(d);
                self.lits.push(None);
            }
            VarDecl::Sparse { values } => {
                let d = if self.named {
                    self.solver.new_named_sparse_integer(values.clone(), name)
                } else {
                    self.solver.new_sparse_integer(values.clone())
                };
                self.doms.push(d);
                self.lits.push(None);
            }
            VarDecl::Bool => {
                let l = if self.named { self.solver.new_named_literal(name) } else { self.solver.new_literal() };
                self.doms.push(l.get_true_predicate().get_domain());
                self.lits.push(Some(l));
            }
            VarDecl::PredLit { pred } => {
                // the public API has no named variant; the proof refers to the predicate instead
                let p = self.pred(pred);
                let l = self.solver.new_literal_for_predicate(p);
                self.doms.push(l.get_true_predicate().get_domain());
                self.lits.push(Some(l));
            }
        }
        self.occ.push(0);
        idx
    }

    pub fn term(&self, t: &Term) -> View {
        self.doms[t.var].scaled(t.scale).offset(t.offset)
    }
    pub fn terms(&self, ts: &[Term]) -> Vec<View> {
        ts.iter().map(|t| self.term(t)).collect()
    }
    pub fn lit(&self, l: &Lit) -> Literal {
        let x = self.lits[l.var].expect("literal over a non-Bool variable");
        if l.neg {
            !x
        } else {
            x
        }
    }
    pub fn lits_of(&self, ls: &[Lit]) -> Vec<Literal> {
        ls.iter().map(|l| self.lit(l)).collect()
    }
    pub fn pred(&self, p: &Pred) -> Predicate {
        let d = self.doms[p.var];
        match p.kind {
            PKind::Ge => Predicate::LowerBound { domain_id: d, lower_bound: p.val },
            PKind::Le => Predicate::UpperBound { domain_id: d, upper_bound: p.val },
            PKind::Eq => Predicate::Equal { domain_id: d, equality_constant: p.val },
            PKind::Ne => Predicate::NotEqual { domain_id: d, not_equal_constant: p.val },
        }
    }
    /// inverse of `pred` for predicates over model variables
    pub fn unpred(&self, p: Predicate) -> Option<Pred> {
        let var = self.doms.iter().position(|d| *d == p.get_domain())?;
        Some(match p {
            Predicate::LowerBound { lower_bound, .. } => Pred { var, kind: PKind::Ge, val: lower_bound },
            Predicate::UpperBound { upper_bound, .. } => Pred { var, kind: PKind::Le, val: upper_bound },
            Predicate::Equal { equality_constant, .. } => Pred { var, kind: PKind::Eq, val: equality_constant },
            Predicate::NotEqual { not_equal_constant, .. } => Pred { var, kind: PKind::Ne, val: not_equal_constant },
        })
    }

    /// Post one constraint; `index` determines the tag. Returns whether posting succeeded.
    pub fn post(&mut self, p: &Posted, index: usize) -> bool {
        for v in p.vars() {
            self.occ[v] += 1;
        }
        let tag = if p.tag && p.cons.is_taggable() { NonZero::new(index as u32 + 1) } else { None };
        let mode = p.mode;
        let ok = self.post_inner(&p.cons, mode, tag);
        self.post_ok.push(ok);
        ok
    }

    fn fin<C: Constraint>(&mut self, c: C, mode: Mode, tag: Option<NonZero<u32>>) -> bool {
        let rl = match mode {
            Mode::ImpliedBy(l) | Mode::Reify(l) => Some(self.lit(&l)),
            _ => None,
        };
        let poster = self.solver.add_constraint(c);
        let poster = if let Some(t) = tag { poster.with_tag(t) } else { poster };
        match mode {
            Mode::Post => poster.post().is_ok(),
            Mode::ImpliedBy(_) => poster.implied_by(rl.unwrap()).is_ok(),
            _ => panic!("harness: mode {:?} needs a negatable constraint", mode),
        }
    }

    fn fin_n<C: NegatableConstraint>(&mut self, c: C, mode: Mode, tag: Option<NonZero<u32>>) -> bool {
        match mode {
            Mode::Post | Mode::ImpliedBy(_) => self.fin(c, mode, tag),
            Mode::Reify(l) => {
                let rl = self.lit(&l);
                let poster = self.solver.add_constraint(c);
                let poster = if let Some(t) = tag { poster.with_tag(t) } else { poster };
                poster.reify(rl).is_ok()
            }
            Mode::Negated => {
                let n = c.negation();
                self.fin(n, Mode::Post, tag)
            }
        }
    }

    fn post_inner(&mut self, c: &Cons, mode: Mode, tag: Option<NonZero<u32>>) -> bool {
        match c {
            Cons::LinLe { terms, rhs } => {
                let c = constraints::less_than_or_equals(self.terms(terms), *rhs);
                self.fin_n(c, mode, tag)
            }
            Cons::LinEq { terms, rhs } => {
                let c = constraints::equals(self.terms(terms), *rhs);
                self.fin_n(c, mode, tag)
            }
            Cons::LinNe { terms, rhs } => {
                let c = constraints::not_equals(self.terms(terms), *rhs);
                self.fin_n(c, mode, tag)
            }
            Cons::BinEq { a, b } => {
                let c = constraints::binary_equals(self.term(a), self.term(b));
                self.fin_n(c, mode, tag)
            }
            Cons::BinNe { a, b } => {
                let c = constraints::binary_not_equals(self.term(a), self.term(b));
                self.fin_n(c, mode, tag)
            }
            Cons::BinLe { a, b } => {
                let c = constraints::binary_less_than_or_equals(self.term(a), self.term(b));
                self.fin_n(c, mode, tag)
            }
            Cons::BinLt { a, b } => {
                let c = constraints::binary_less_than(self.term(a), self.term(b));
                self.fin_n(c, mode, tag)
            }
            Cons::Plus { a, b, c } => {
                let c = constraints::plus(self.term(a), self.term(b), self.term(c));
                self.fin(c, mode, tag)
            }
            Cons::Times { a, b, c } => {
                let c = constraints::times(self.term(a), self.term(b), self.term(c));
                self.fin(c, mode, tag)
            }
            Cons::Div { n, d, r } => {
                let c = constraints::division(self.term(n), self.term(d), self.term(r));
                self.fin(c, mode, tag)
            }
            Cons::Abs { x, y } => {
                let c = constraints::absolute(self.term(x), self.term(y));
                self.fin(c, mode, tag)
            }
            Cons::Max { xs, m } => {
                let c = constraints::maximum(self.terms(xs), self.term(m));
                self.fin(c, mode, tag)
            }
            Cons::Min { xs, m } => {
                let c = constraints::minimum(self.terms(xs), self.term(m));
                self.fin(c, mode, tag)
            }
            Cons::Element { idx, array, rhs } => {
                let c = constraints::element(self.term(idx), self.terms(array), self.term(rhs));
                self.fin(c, mode, tag)
            }
            Cons::AllDiff { xs } => {
                let c = constraints::all_different(self.terms(xs));
                self.fin(c, mode, tag)
            }
            Cons::Clause { lits } => {
                let c = constraints::clause(self.lits_of(lits));
                self.fin_n(c, mode, None)
            }
            Cons::Conj { lits } => {
                let c = constraints::conjunction(self.lits_of(lits));
                self.fin_n(c, mode, None)
            }
            Cons::BoolLinLe { ws, lits, rhs } => {
                let c = constraints::boolean_less_than_or_equals(ws.clone(), self.lits_of(lits), *rhs);
                self.fin(c, mode, tag)
            }
            Cons::BoolLinEq { ws, lits, rhs_var } => {
                let c = constraints::boolean_equals(ws.clone(), self.lits_of(lits), self.doms[*rhs_var]);
                self.fin(c, mode, tag)
            }
            Cons::Cumulative { starts, durs, uses, cap, opts } => {
                let c = constraints::cumulative_with_options(
                    self.terms(starts),
                    durs.clone(),
                    uses.clone(),
                    *cap,
                    cum_options(opts),
                );
                self.fin(c, mode, tag)
            }
            Cons::PredClause { preds } => {
                assert!(matches!(mode, Mode::Post));
                let ps: Vec<Predicate> = preds.iter().map(|p| self.pred(p)).collect();
                self.solver.add_clause(ps).is_ok()
            }
            Cons::ViewClause { atoms } => {
                assert!(matches!(mode, Mode::Post));
                let ps: Vec<Predicate> = atoms
                    .iter()
                    .map(|p| {
                        let view = self.term(&p.term);
                        match p.kind {
                            PKind::Ge => pumpkin_solver::predicate!(view >= p.val),
                            PKind::Le => pumpkin_solver::predicate!(view <= p.val),
                            PKind::Eq => pumpkin_solver::predicate!(view == p.val),
                            PKind::Ne => pumpkin_solver::predicate!(view != p.val),
                        }
                    })
                    .collect();
                self.solver.add_clause(ps).is_ok()
            }
        }
    }

    pub fn extract(&self, s: &Solution) -> Vec<i32> {
        self.doms.iter().map(|d| s.get_integer_value(*d)).collect()
    }
    pub fn extract_ref(&self, s: SolutionReference) -> Vec<i32> {
        self.doms.iter().map(|d| s.get_integer_value(*d)).collect()
    }

    pub fn brancher(&self, spec: &BrSpec) -> ObsBrancher {
        let vars = self.doms.clone();
        let n = vars.len();
        let inner: Box<dyn Brancher> = match spec {
            BrSpec::Default => Box::new(self.solver.default_brancher()),
            BrSpec::Indep(sel) => boxed_indep(sel, &vars, &self.occ, self.seed),
            BrSpec::Dynamic { parts, interleave, build } => {
                let k = parts.len().max(1).min(n.max(1));
                let mut groups: Vec<(Vec<DomainId>, Vec<u32>)> = vec![(vec![], vec![]); k];
                for (i, v) in vars.iter().enumerate() {
                    let g = if *interleave { i % k } else { (i * k) / n.max(1) };
                    groups[g].0.push(*v);
                    groups[g].1.push(self.occ[i]);
                }
                let mut bs: Vec<Box<dyn Brancher>> = groups
                    .iter()
                    .zip(parts.iter())
                    .filter(|(g, _)| !g.0.is_empty())
                    .map(|(g, sel)| boxed_indep(sel, &g.0, &g.1, self.seed))
                    .collect();
                // semantically identical strategies, assembled through the different entry points
                match build % 4 {
                    1 if !bs.is_empty() => {
                        let rest = bs.split_off(1);
                        let mut d = DynamicBrancher::new(bs);
                        for b in rest {
                            d.add_brancher(b);
                        }
                        Box::new(d)
                    }
                    2 if bs.len() >= 2 => {
                        let rest = bs.split_off(1);
                        let mut d = DynamicBrancher::new(bs);
                        d.add_brancher(Box::new(DynamicBrancher::new(rest)));
                        Box::new(d)
                    }
                    3 => {
                        let mut d = DynamicBrancher::new(vec![]);
                        for b in bs {
                            d.add_brancher(b);
                        }
                        Box::new(d)
                    }
                    _ => Box::new(DynamicBrancher::new(bs)),
                }
            }
            BrSpec::Alternating { strategy, other } => {
                let strat = match strategy % 4 {
                    0 => AlternatingStrategy::EverySolution,
                    1 => AlternatingStrategy::EveryOtherSolution,
                    2 => AlternatingStrategy::SwitchToDefaultAfterFirstSolution,
                    _ => AlternatingStrategy::EveryRestart,
                };
                Box::new(AlternatingBrancher::new(&self.solver, indep(other, &vars, &self.occ, self.seed), strat))
            }
            BrSpec::AutoCustom(sel) => Box::new(AutonomousSearch::new(indep(sel, &vars, &self.occ, self.seed))),
        };
        ObsBrancher::new(inner, vars)
    }
}

pub fn cum_options(o: &CumOpts) -> CumulativeOptions {
    CumulativeOptions::new(
        o.holes,
        match o.expl {
            0 => CumulativeExplanationType::Naive,
            1 => CumulativeExplanationType::BigStep,
            _ => CumulativeExplanationType::Pointwise,
        },
        o.seq,
        match o.method {
            0 => CumulativePropagationMethod::TimeTablePerPoint,
            1 => CumulativePropagationMethod::TimeTablePerPointIncremental,
            2 => CumulativePropagationMethod::TimeTablePerPointIncrementalSynchronised,
            3 => CumulativePropagationMethod::TimeTableOverInterval,
            4 => CumulativePropagationMethod::TimeTableOverIntervalIncremental,
            _ => CumulativePropagationMethod::TimeTableOverIntervalIncrementalSynchronised,
        },
        o.incr_backtrack,
    )
}

/// does the given brancher specification make restarts meaningful (`is_restart_pointless` false)
pub fn spec_is_dynamic(spec: &BrSpec) -> bool {
    match spec {
        BrSpec::Default | BrSpec::AutoCustom(_) | BrSpec::Alternating { .. } => true,
        BrSpec::Indep(s) => s.vs == 8 || s.vs == 7 || matches!(s.vl, 5 | 7 | 11 | 12) || s.tie_random,
        BrSpec::Dynamic { parts, .. } => parts.iter().any(|s| s.vs == 8 || matches!(s.vl, 5 | 7 | 11 | 12)),
    }
}
