//! Property-based verification harness for Pumpkin (library part; `main.rs` is the command-line driver and
//! `fuzz/` holds the libFuzzer targets which reuse the same strategies and judgement functions).
pub mod adapter;
pub mod cli;
pub mod gen;
pub mod ir;
pub mod ops;
pub mod props;
pub mod runner;
pub mod sem;
