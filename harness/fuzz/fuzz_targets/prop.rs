//! One libFuzzer target for all properties: `PV_PROP=<ID>` selects the property. The input bytes drive
//! the property's proptest strategy through proptest's pass-through RNG (every input is a valid case), the
//! property's own oracle judges it, listed findings are tolerated, anything else is written as a replay
//! file and aborts the process (a libFuzzer "crash").
#![no_main]
use std::sync::atomic::{AtomicU64, Ordering};
use std::sync::OnceLock;

use libfuzzer_sys::fuzz_target;
use pv::props::{dispatch, Visitor};
use pv::runner::{fuzz_one, install_panic_hook, load_known, FuzzOutcome, KnownRecord, Property};

static KNOWN: OnceLock<Vec<KnownRecord>> = OnceLock::new();
static PROP: OnceLock<String> = OnceLock::new();
static CASES: AtomicU64 = AtomicU64::new(0);
static NONTRIVIAL: AtomicU64 = AtomicU64::new(0);
static KNOWN_HITS: AtomicU64 = AtomicU64::new(0);

struct One<'a>(&'a [u8]);

impl Visitor for One<'_> {
    type Out = ();
    fn visit<P: Property>(self, prop: &P) {
        let known = KNOWN.get_or_init(|| {
            install_panic_hook();
            load_known()
        });
        match fuzz_one(prop, known, self.0) {
            FuzzOutcome::NoCase => {}
            FuzzOutcome::Held { nontrivial } => {
                let _ = CASES.fetch_add(1, Ordering::Relaxed);
                if nontrivial {
                    let _ = NONTRIVIAL.fetch_add(1, Ordering::Relaxed);
                }
            }
            FuzzOutcome::Known(_) => {
                let _ = CASES.fetch_add(1, Ordering::Relaxed);
                let _ = KNOWN_HITS.fetch_add(1, Ordering::Relaxed);
            }
            FuzzOutcome::Violation(path, f) => {
                eprintln!("VIOLATION property={} replay={}", prop.id(), path.display());
                eprintln!("  {}: {}", f.sig, f.msg);
                std::process::abort();
            }
        }
        let n = CASES.load(Ordering::Relaxed);
        if n > 0 && n % 50_000 == 0 {
            eprintln!("[fuzz {}] cases={} nontrivial={} known_hits={}", prop.id(), n, NONTRIVIAL.load(Ordering::Relaxed), KNOWN_HITS.load(Ordering::Relaxed));
        }
        // the counters are read by the wrapper script from this file at the end of the campaign
        if n % 1000 == 0 {
            if let Ok(p) = std::env::var("PV_FUZZ_STATS") {
                let _ = std::fs::write(p, format!("{{\"cases\": {}, \"nontrivial\": {}, \"known_hits\": {}}}", n, NONTRIVIAL.load(Ordering::Relaxed), KNOWN_HITS.load(Ordering::Relaxed)));
            }
        }
    }
}

fuzz_target!(|data: &[u8]| {
    let id = PROP.get_or_init(|| std::env::var("PV_PROP").unwrap_or_else(|_| "C01".to_string()));
    if dispatch(id, One(data)).is_none() {
        eprintln!("unknown property {id}");
        std::process::exit(2);
    }
});
