#!/bin/bash
# Coverage-guided stage of the thorough tier:  ./fuzz.sh <ID> [runs-per-job] [jobs]
# Builds the libFuzzer target (harness/fuzz, cargo-fuzz, nightly) from /repo's working tree and runs <jobs>
# independent libFuzzer processes, each for a fixed number of runs or VERIF_FUZZ_SECS seconds (default 600;
# whichever comes first - the budget only ends the stage, it is never a verdict), on the property's own generator and
# oracle (see harness/fuzz/fuzz_targets/prop.rs). Exit: 0 held, 1 violation (VIOLATION line printed, replay
# file written by the target), 2 anything else (build problem, libFuzzer timeout/OOM report: inconclusive).
set -u
ROOT="$(cd "$(dirname "$0")" && pwd)"
ID="$1"; RUNS="${2:-200000}"; JOBS="${3:-8}"; SEED="${VERIF_SEED:-1}"
export VERIF_ROOT="$ROOT" CARGO_NET_OFFLINE=true
cd "$ROOT/harness/fuzz" || exit 2
[ -f Cargo.lock ] || cp ../Cargo.lock Cargo.lock
if ! RUSTFLAGS="--cfg pumpkin_verif" cargo +nightly fuzz build prop --fuzz-dir . -s none >"$ROOT/harness/build-fuzz.log" 2>&1; then
  echo "building the fuzz target failed (see harness/build-fuzz.log)" >&2; tail -20 "$ROOT/harness/build-fuzz.log" >&2; exit 2
fi
BIN="$ROOT/harness/fuzz/target/x86_64-unknown-linux-gnu/release/prop"
WORK="$ROOT/harness/target-scratch/fuzz/$ID"
rm -rf "$WORK"; mkdir -p "$WORK"
pids=()
for j in $(seq 1 "$JOBS"); do
  mkdir -p "$WORK/corpus$j"
  # a few full-length starting inputs (libFuzzer ramps the length up slowly from an empty corpus)
  python3 - "$WORK/corpus$j" "$SEED" "$j" <<'PY'
import random, sys
d, seed, j = sys.argv[1], int(sys.argv[2]), int(sys.argv[3])
r = random.Random(seed * 1000 + j)
for k in range(8):
    open(f"{d}/seed{k}", "wb").write(bytes(r.getrandbits(8) for _ in range(r.choice([64, 256, 1024, 2048]))))
PY
  PV_PROP="$ID" PV_FUZZ_STATS="$WORK/stats$j.json" "$BIN" "$WORK/corpus$j" -runs="$RUNS" -max_total_time="${VERIF_FUZZ_SECS:-600}" -seed=$((SEED * 1000 + j)) \
     -max_len=4096 -len_control=0 -timeout=120 -rss_limit_mb=4096 -artifact_prefix="$WORK/artifact$j-" >"$WORK/log$j.txt" 2>&1 &
  pids+=($!)
done
code=0
for p in "${pids[@]}"; do wait "$p" || code=$?; done
python3 - "$WORK" "$ID" "$RUNS" "$JOBS" "${VERIF_FUZZ_SECS:-600}" <<'PY'
import glob, json, re, sys
w, pid, runs, jobs = sys.argv[1], sys.argv[2], int(sys.argv[3]), int(sys.argv[4])
tot = {"cases": 0, "nontrivial": 0, "known_hits": 0}
for f in glob.glob(w + "/stats*.json"):
    try:
        d = json.load(open(f))
        for k in tot: tot[k] += d.get(k, 0)
    except Exception: pass
cov = 0
for f in glob.glob(w + "/log*.txt"):
    for m in re.finditer(r"cov: (\d+)", open(f, errors="replace").read()): cov = max(cov, int(m.group(1)))
tot.update({"engine": "libFuzzer (cargo-fuzz), bytes -> proptest pass-through RNG -> the property's strategy", "runs_per_job_max": runs, "seconds_per_job_max": int(sys.argv[5]), "jobs": jobs, "edge_coverage_max": cov,
            "corpus_units": sum(len(glob.glob(w + f"/corpus{j}/*")) for j in range(1, jobs + 1))})
json.dump(tot, open(w + "/summary.json", "w"))
print(f"[fuzz {pid}] " + json.dumps(tot))
PY
if grep -h "^VIOLATION" "$WORK"/log*.txt | head -1 | grep -q VIOLATION; then
  grep -h -A1 "^VIOLATION" "$WORK"/log*.txt | head -2
  exit 1
fi
if [ "$code" -ne 0 ]; then
  echo "libFuzzer ended abnormally without a violation (timeout / out of memory / crash of the target; logs in $WORK): inconclusive" >&2
  grep -h "ERROR\|ALARM\|SUMMARY" "$WORK"/log*.txt | head -5 >&2
  exit 2
fi
exit 0
