import json,sys
d=json.load(open(sys.argv[1]))
c=d['case']
def short(o):
    return json.dumps(o,separators=(',',':'))
if 'model' in c:
    print('vars:',short(c['model']['vars']))
    for p in c['model']['cons']: print('  ',short(p))
    for k in c:
        if k not in('model',): print(k,':',short(c[k]))
else:
    print(short(c))
print(d['failure']['sig']); print(d['failure']['msg'])
