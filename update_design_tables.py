#!/usr/bin/env python3
"""Refreshes the generated tables of DESIGN.md (fixed defects, seeded changes, measured cost) from
known_findings.jsonl, seeded/*/meta.json and evidence/*.json."""
import glob, json, os, re
def between(s, name, body):
    a, b = f"<!-- BEGIN:{name} -->\n", f"<!-- END:{name} -->\n"
    i, j = s.index(a) + len(a), s.index(b)
    return s[:i] + body + s[j:]
s = open('/verif/DESIGN.md').read()
recs = [json.loads(l) for l in open('/verif/known_findings.jsonl')]
rows = "| property | commit | what failed |\n|---|---|---|\n" + "".join(f"| {r['property']} | `{r['commit']}` | {r['what']} |\n" for r in recs if r['kind'] == 'fixed')
s = between(s, "fixed-table", rows)
why = json.load(open('/verif/findings_why.json'))
rows = "| id | property | what fails | why not repaired |\n|---|---|---|---|\n" + "".join(f"| {r['id']} | {r['property']} | {r['what']} | {why.get(r['id'], '')} |\n" for r in recs if r['kind'] == 'finding')
s = between(s, "findings-table", rows)
rows = "| change | what was changed | what it needs to manifest | caught by (quick tier, exit 1) | also run, not caught |\n|---|---|---|---|---|\n"
for name in sorted(os.listdir('/verif/seeded')):
    m = json.load(open(f'/verif/seeded/{name}/meta.json'))
    cut = lambda t, n: (t[:n - 3] + '...') if len(t) > n else t
    summ = cut(str(m.get('summary', '')).replace('|', '/').replace('\n', ' '), 260)
    trig = cut(str(m.get('trigger', '')).replace('|', '/').replace('\n', ' '), 220)
    note = " (own check only after strengthening, see below)" if m.get('missed_before_strengthening') else ""
    rows += f"| {name} | {summ} | {trig} | {', '.join(m.get('caught_by', []))}{note} | {', '.join(m.get('missed_by', [])) or '-'} |\n"
s = between(s, "seeded-table", rows)
rows = "| property | evaluations (quick) | distinct non-trivial cases by the property's rule | wall |\n|---|---|---|---|\n"
for f in sorted(glob.glob('/verif/evidence/C*.json')):
    d = json.load(open(f))
    if d.get('tier') != 'quick': continue
    rows += f"| {d['property_id']} | {d['coverage'].get('evaluations')} | {d['coverage'].get('distinct_nontrivial')} | {d['wall_s']:.0f} s |\n"
s = between(s, "cost-table", rows)
open('/verif/DESIGN.md', 'w').write(s)
print("tables refreshed")
