#!/bin/bash
# usage: seeded_test.sh <patch.diff> <ID> [<ID> ...]
# Applies a seeded change to /repo, runs the quick tier of the given checks, restores /repo.
# Prints one line per check:  <patch> <ID> exit=<code> [first VIOLATION line]
set -u
PATCH="$1"; shift
cd /repo || exit 2
if [ -n "$(git status --porcelain --untracked-files=no)" ]; then echo "/repo is not clean" >&2; exit 2; fi
if ! git apply "$PATCH"; then echo "patch does not apply: $PATCH" >&2; exit 2; fi
# restore /repo and rebuild the harness against the restored tree (so that no stale binary is left behind)
trap 'cd /repo && git checkout -- . && cd /verif/harness && cargo build --release --offline >/dev/null 2>&1' EXIT
export VERIF_EVIDENCE_DIR=/verif/harness/target-scratch/seeded-evidence
for ID in "$@"; do
  out=$(cd /verif && VERIF_SEED=${VERIF_SEED:-1} timeout 1800 ./run.sh "$ID" quick 2>&1)
  code=$?
  viol=$(echo "$out" | grep -m1 "^VIOLATION" || true)
  detail=$(echo "$out" | grep -A1 -m1 "^VIOLATION" | tail -1 | cut -c1-220)
  echo "${SEEDED_NAME:-$(basename $(dirname $PATCH))} $ID exit=$code $viol :: $detail"
done
